//! Building blocks shared by the harness binaries: the harness's own entropy model
//! (`Tab` / `TV`), word-data generators, and the reference coders.

pub mod refs;
pub mod table;

pub use table::{gen_tab, out_of_range_quantiles, Tab, TV};

use vengine::Src;

/// Word data for "arbitrary data" properties: lengths 0..=max_words, contents from a
/// mixture of random, all-zero, all-ones, single-bit, trailing-zero and trailing-ones.
pub fn gen_words(src: &mut Src, bits: u32, max_words: usize) -> Vec<u64> {
    let n = match src.below(8) {
        0 => 0,
        1 => 1,
        2 => 2,
        _ => src.below_usize(max_words + 1),
    };
    let max = if bits >= 64 { u64::MAX } else { (1u64 << bits) - 1 };
    let style = src.below(8);
    let mut v: Vec<u64> = (0..n)
        .map(|_| match style {
            0 => 0,
            1 => max,
            2 => src.wordish(bits),
            _ => src.bits(bits),
        })
        .collect();
    match src.below(6) {
        0 => {
            // trailing zero words
            let k = src.below_usize(n.min(3) + 1);
            for x in v.iter_mut().rev().take(k) {
                *x = 0;
            }
        }
        1 => {
            let k = src.below_usize(n.min(3) + 1);
            for x in v.iter_mut().rev().take(k) {
                *x = max;
            }
        }
        2 => {
            if let Some(x) = v.last_mut() {
                *x = 1;
            }
        }
        _ => {}
    }
    v
}

/// Hex rendering of a word list for traces.
pub fn hexwords<T: core::fmt::LowerHex>(v: &[T]) -> String {
    let parts: Vec<String> = v.iter().map(|x| format!("{:x}", x)).collect();
    format!("[{}]", parts.join(","))
}
