//! C15 — Huffman codebooks are prefix-free, complete, optimal and mutually consistent.
//!
//! Generator: 1..40 weights (thorough: up to 600) of type u8 / u32 / u64 / f32 / f64 from
//! a mixture: many ties, zeros, powers of two, Fibonacci-like (deep trees), nearly equal
//! floats, and float tables scaled by 2^k for k in -1000..1000 (exact rescaling must not
//! change the code).
//!
//! Oracle: prefix-free; Kraft sum == 1 (n >= 2); bit-identical to a textbook construction
//! with the documented tie rule (weight, then index; merged nodes numbered n, n+1, ..;
//! first popped child gets bit 0); total weighted length equal to the optimum found by
//! *exhaustive enumeration of all complete length profiles* for n <= 9; prefix form ==
//! reverse of suffix form; the decoder tree built from the same weights decodes every
//! codeword to its symbol and consumes exactly its length; symbols outside the alphabet
//! are rejected; NaN weights are rejected by both constructors.

use constriction::symbol::huffman::{DecoderHuffmanTree, EncoderHuffmanTree};
use constriction::symbol::{DecoderCodebook, EncoderCodebook, SymbolCodeError};
use constriction::{CoderError, DefaultEncoderFrontendError};
use core::convert::Infallible;
use vengine::{note, vcheck, vfail, CaseResult, Ctx, Src};

/// Textbook Huffman construction; returns root-first codewords.
fn ref_huffman<P: Clone + PartialOrd + core::ops::Add<Output = P>>(weights: &[P]) -> Vec<Vec<bool>> {
    let n = weights.len();
    // (weight, node index), kept as an unsorted list; the two minima are searched linearly
    let mut live: Vec<(P, usize)> = weights.iter().cloned().enumerate().map(|(i, w)| (w, i)).collect();
    let mut parent: Vec<Option<(usize, bool)>> = vec![None; 2 * n - 1];
    let mut next = n;
    let less = |a: &(P, usize), b: &(P, usize)| -> bool {
        if a.0 < b.0 {
            true
        } else if b.0 < a.0 {
            false
        } else {
            a.1 < b.1
        }
    };
    while live.len() >= 2 {
        let mut i0 = 0;
        for i in 1..live.len() {
            if less(&live[i], &live[i0]) {
                i0 = i;
            }
        }
        let a = live.swap_remove(i0);
        let mut i1 = 0;
        for i in 1..live.len() {
            if less(&live[i], &live[i1]) {
                i1 = i;
            }
        }
        let b = live.swap_remove(i1);
        parent[a.1] = Some((next, false));
        parent[b.1] = Some((next, true));
        live.push((a.0 + b.0, next));
        next += 1;
    }
    (0..n)
        .map(|s| {
            let mut bits = Vec::new();
            let mut node = s;
            while let Some((p, b)) = parent[node] {
                bits.push(b);
                node = p;
            }
            bits.reverse();
            bits
        })
        .collect()
}

/// Minimum of sum(w_i * l_i) over all complete prefix codes, by enumerating all
/// non-decreasing length profiles with Kraft sum exactly 1 (weights sorted descending get
/// the lengths in ascending order). Exponential; used for n <= 9.
fn brute_force_optimum(weights_desc: &[f64]) -> f64 {
    fn rec(weights: &[f64], idx: usize, min_len: u32, kraft_left: u64, unit: u32, acc: f64, best: &mut f64) {
        // kraft_left is measured in units of 2^-unit
        let n = weights.len();
        if idx == n {
            if kraft_left == 0 && acc < *best {
                *best = acc;
            }
            return;
        }
        if acc >= *best {
            return;
        }
        let remaining = (n - idx) as u64;
        for l in min_len..=unit {
            let cost = 1u64 << (unit - l);
            if cost > kraft_left {
                continue;
            }
            // all remaining symbols have length >= l, so they can use at most remaining * cost
            if remaining * cost < kraft_left {
                break;
            }
            rec(weights, idx + 1, l, kraft_left - cost, unit, acc + weights[idx] * l as f64, best);
        }
    }
    let n = weights_desc.len();
    if n == 1 {
        return 0.0;
    }
    let unit = (n - 1) as u32;
    let mut best = f64::INFINITY;
    rec(weights_desc, 0, 1, 1u64 << unit, unit, 0.0, &mut best);
    best
}

fn encoder_codeword(tree: &EncoderHuffmanTree, s: usize) -> Result<(Vec<bool>, Vec<bool>), String> {
    let mut prefix = Vec::new();
    tree.encode_symbol_prefix(s, |b| {
        prefix.push(b);
        Ok::<(), Infallible>(())
    })
    .map_err(|e| format!("{:?}", e))?;
    let mut suffix = Vec::new();
    tree.encode_symbol_suffix(s, |b| {
        suffix.push(b);
        Ok::<(), Infallible>(())
    })
    .map_err(|e| format!("{:?}", e))?;
    Ok((prefix, suffix))
}

fn bits(v: &[bool]) -> String {
    v.iter().map(|&b| if b { '1' } else { '0' }).collect()
}

fn check_trees(
    ctx: &mut Ctx,
    enc: &EncoderHuffmanTree,
    dec: &DecoderHuffmanTree,
    refcode: &[Vec<bool>],
    weights_f64: &[f64],
    exact: bool,
    what: &str,
) -> CaseResult {
    let n = refcode.len();
    vcheck!(enc.num_symbols() == n && dec.num_symbols() == n, "C15/num_symbols", "{}: encoder says {} symbols, decoder {}, weights {}", what, enc.num_symbols(), dec.num_symbols(), n);
    let mut code = Vec::new();
    for s in 0..n {
        let (p, sfx) = match encoder_codeword(enc, s) {
            Ok(x) => x,
            Err(e) => vfail!("C15/encode_failed", "{}: symbol {} -> {}", what, s, e),
        };
        let mut r = sfx.clone();
        r.reverse();
        vcheck!(p == r, "C15/prefix_is_not_reversed_suffix", "{}: symbol {} prefix {} suffix {}", what, s, bits(&p), bits(&sfx));
        code.push(p);
    }
    if n == 1 {
        vcheck!(code[0].is_empty(), "C15/single_symbol_codeword_not_empty", "{}: {}", what, bits(&code[0]));
    } else {
        // prefix-free + Kraft
        let maxlen = code.iter().map(|c| c.len()).max().unwrap_or(0);
        for i in 0..n {
            vcheck!(!code[i].is_empty(), "C15/empty_codeword", "{}: symbol {} of {} has an empty codeword", what, i, n);
            for j in 0..n {
                if i != j && code[j].len() >= code[i].len() {
                    vcheck!(code[j][..code[i].len()] != code[i][..], "C15/not_prefix_free", "{}: codeword {} of symbol {} is a prefix of {} (symbol {})", what, bits(&code[i]), i, bits(&code[j]), j);
                }
            }
        }
        if maxlen <= 120 {
            let kraft: u128 = code.iter().map(|c| 1u128 << (maxlen - c.len())).sum();
            vcheck!(kraft == 1u128 << maxlen, "C15/kraft_sum_not_one", "{}: Kraft sum {} / 2^{}", what, kraft, maxlen);
        }
    }
    // documented tie rule => bit-identical to the textbook construction
    for s in 0..n {
        vcheck!(
            code[s] == refcode[s],
            "C15/codeword_differs_from_reference",
            "{}: symbol {} has codeword {} but the textbook construction with ties broken by index gives {} (weights {:?})",
            what,
            s,
            bits(&code[s]),
            bits(&refcode[s]),
            &weights_f64[..n.min(12)]
        );
    }
    // optimality by exhaustive search (exactly representable weights only)
    if exact && n <= 9 {
        let mut w = weights_f64.to_vec();
        w.sort_by(|a, b| b.partial_cmp(a).unwrap());
        let best = brute_force_optimum(&w);
        let cost: f64 = (0..n).map(|s| weights_f64[s] * code[s].len() as f64).sum();
        let scale = w.iter().cloned().fold(0.0, f64::max).max(f64::MIN_POSITIVE);
        vcheck!(
            (cost - best).abs() <= 1e-9 * scale * n as f64,
            "C15/not_optimal",
            "{}: total weighted length {} but the optimum over all complete codes is {} (weights {:?})",
            what,
            cost,
            best,
            weights_f64
        );
        ctx.label("optimality_checked_exhaustively");
    }
    // decoder consistency
    for s in 0..n {
        let mut stream: Vec<bool> = code[s].clone();
        stream.extend_from_slice(&[true, false, true, true]);
        let mut it = stream.iter().map(|&b| Ok::<bool, Infallible>(b));
        let r = dec.decode_symbol(&mut it);
        let consumed = stream.len() - it.len();
        match r {
            Ok(d) => {
                vcheck!(d == s, "C15/decoder_disagrees_with_encoder", "{}: codeword {} of symbol {} decodes to {}", what, bits(&code[s]), s, d);
                vcheck!(consumed == code[s].len(), "C15/decoder_consumed_wrong_length", "{}: decoding symbol {} consumed {} bits, codeword has {}", what, s, consumed, code[s].len());
            }
            Err(e) => vfail!("C15/decoder_failed", "{}: codeword {} of symbol {} -> {:?}", what, bits(&code[s]), s, e),
        }
        if code[s].len() >= 1 {
            // a truncated codeword must be reported as out of data
            let cut = &code[s][..code[s].len() - 1];
            let r = dec.decode_symbol(cut.iter().map(|&b| Ok::<bool, Infallible>(b)));
            vcheck!(
                matches!(r, Err(CoderError::Frontend(SymbolCodeError::OutOfCompressedData))),
                "C15/truncated_codeword_not_reported",
                "{}: truncated codeword {} -> {:?}",
                what,
                bits(cut),
                r
            );
        }
    }
    // symbols outside the alphabet
    for &bad in &[n, n + 1, 2 * n, 2 * n + 1, usize::MAX] {
        let r = enc.encode_symbol_prefix(bad, |_b| Ok::<(), Infallible>(()));
        vcheck!(
            matches!(r, Err(CoderError::Frontend(DefaultEncoderFrontendError::ImpossibleSymbol))),
            "C15/symbol_outside_alphabet_accepted",
            "{}: encoding symbol {} with an alphabet of {} -> {:?}",
            what,
            bad,
            n,
            r
        );
    }
    Ok(())
}

pub fn c15_huffman(src: &mut Src, ctx: &mut Ctx) -> CaseResult {
    let max_n = if ctx.tier == 0 { 40 } else { 600 };
    let n = match src.below(4) {
        0 => src.range_usize(1, 4),
        1 => src.range_usize(2, 9),
        _ => src.range_usize(1, max_n),
    };
    let style = src.below(8);
    let kind = src.below(5);
    // deep trees (codewords longer than 64 and 128 bits) need many geometrically decreasing
    // weights, which only the float types can represent
    let deep = style == 7 && kind >= 3;
    let n = if deep { src.range_usize(60, 140) } else { n };
    let deep_reversed = src.bool();
    ctx.label(match kind {
        0 => "type:u8",
        1 => "type:u32",
        2 => "type:u64",
        3 => "type:f32",
        _ => "type:f64",
    });
    // integer "shape" of the weights; floats are derived from it
    let mut shape: Vec<u64> = Vec::with_capacity(n);
    let (mut fa, mut fb) = (1u64, 1u64);
    for i in 0..n {
        let w = match style {
            0 => src.below(4),               // many ties and zeros
            1 => 1u64 << src.below(20),      // powers of two
            2 => {
                // Fibonacci-like: deep trees
                let v = fa;
                let t = fa + fb;
                fa = fb;
                fb = t.min(1 << 40);
                v
            }
            3 => 1000 + src.below(3),        // nearly equal
            4 => if i == 0 { 1 << 30 } else { src.below(3) }, // one dominant
            _ => src.below(1 << 16),
        };
        shape.push(w);
    }
    ctx.label_if(deep, "style:deep_geometric");
    ctx.label(match style {
        0 => "style:ties_and_zeros",
        1 => "style:powers_of_two",
        2 => "style:fibonacci",
        3 => "style:nearly_equal",
        4 => "style:dominant",
        7 => "style:deep_geometric_or_random",
        _ => "style:random",
    });
    if n >= 3 {
        ctx.nontrivial();
    }
    match kind {
        0 => {
            // u8: keep the total below 256
            let mut total = 0u32;
            let w: Vec<u8> = shape
                .iter()
                .map(|&x| {
                    let v = (x % 7) as u32;
                    let v = if total + v > 255 { 0 } else { v };
                    total += v;
                    v as u8
                })
                .collect();
            note!(ctx, "u8 weights {:?}", w);
            let enc = EncoderHuffmanTree::from_probabilities::<u8, _>(&w);
            let dec = DecoderHuffmanTree::from_probabilities::<u8, _>(&w);
            let r = ref_huffman(&w);
            let wf: Vec<f64> = w.iter().map(|&x| x as f64).collect();
            check_trees(ctx, &enc, &dec, &r, &wf, true, "u8")
        }
        1 => {
            let w: Vec<u32> = shape.iter().map(|&x| (x % (1 << 21)) as u32).collect();
            note!(ctx, "u32 weights {:?}", w);
            let enc = EncoderHuffmanTree::from_probabilities::<u32, _>(&w);
            let dec = DecoderHuffmanTree::from_probabilities::<u32, _>(&w);
            let r = ref_huffman(&w);
            let wf: Vec<f64> = w.iter().map(|&x| x as f64).collect();
            check_trees(ctx, &enc, &dec, &r, &wf, true, "u32")
        }
        2 => {
            let w: Vec<u64> = shape.clone();
            note!(ctx, "u64 weights {:?}", w);
            let enc = EncoderHuffmanTree::from_probabilities::<u64, _>(&w);
            let dec = DecoderHuffmanTree::from_probabilities::<u64, _>(&w);
            let r = ref_huffman(&w);
            let wf: Vec<f64> = w.iter().map(|&x| x as f64).collect();
            check_trees(ctx, &enc, &dec, &r, &wf, true, "u64")
        }
        3 => {
            // f32: dyadic values (exact sums) scaled by a power of two, or arbitrary values
            let exact = src.ratio(2, 3);
            let k = src.below(240) as i32 - 140; // 2^-140 .. 2^99
            let scale = 2f32.powi(k.clamp(-125, 60));
            let w: Vec<f32> = if deep {
                // 2^-i, exactly representable down to 2^-126 (then clamped: ties at the bottom)
                let mut v: Vec<f32> = (0..n).map(|i| 2f32.powi(-((i as i32).min(125)))).collect();
                if deep_reversed {
                    v.reverse();
                }
                v
            } else {
                shape
                    .iter()
                    .map(|&x| {
                        if exact {
                            ((x % (1 << 12)) as f32) * scale
                        } else {
                            (x as f32) * 1.000_123 * scale + if x % 3 == 0 { f32::EPSILON * scale } else { 0.0 }
                        }
                    })
                    .collect()
            };
            note!(ctx, "f32 weights {:?}", w);
            ctx.label_if(k < -30, "float_scale_tiny");
            if src.ratio(1, 10) {
                let mut wn = w.clone();
                let j = src.below_usize(n);
                wn[j] = f32::NAN;
                let e = EncoderHuffmanTree::from_float_probabilities::<f32, _>(&wn);
                let d = DecoderHuffmanTree::from_float_probabilities::<f32, _>(&wn);
                vcheck!(e.is_err() && d.is_err(), "C15/nan_weight_accepted", "NaN at position {}: encoder {:?}, decoder {:?}", j, e.is_ok(), d.is_ok());
                ctx.label("nan_rejected");
            }
            let enc = match EncoderHuffmanTree::from_float_probabilities::<f32, _>(&w) {
                Ok(t) => t,
                Err(e) => vfail!("C15/float_weights_rejected", "{:?}", e),
            };
            let dec = match DecoderHuffmanTree::from_float_probabilities::<f32, _>(&w) {
                Ok(t) => t,
                Err(e) => vfail!("C15/float_weights_rejected", "{:?}", e),
            };
            let r = ref_huffman(&w);
            let wf: Vec<f64> = w.iter().map(|&x| x as f64).collect();
            // sums of <= 9 twelve-bit dyadic values are exact in f32
            check_trees(ctx, &enc, &dec, &r, &wf, exact, "f32")
        }
        _ => {
            let exact = src.ratio(2, 3);
            let k = src.below(1900) as i32 - 1000;
            let scale = 2f64.powi(k);
            let w: Vec<f64> = if deep {
                // base 2: every weight equals the sum of all lighter ones plus the lightest (ties all the way up); base 4: every
                // weight exceeds the sum of all lighter ones, which puts the long chain on the other side of the tree
                let base: f64 = if n % 3 == 0 { 4.0 } else { 2.0 };
                let mut v: Vec<f64> = (0..n).map(|i| base.powi(-(i as i32))).collect();
                if deep_reversed {
                    v.reverse();
                }
                v
            } else {
                shape
                    .iter()
                    .map(|&x| {
                        if exact {
                            (x as f64) * scale
                        } else {
                            (x as f64) * 1.000_000_123 * scale + if x % 3 == 0 { f64::EPSILON * scale } else { 0.0 }
                        }
                    })
                    .collect()
            };
            note!(ctx, "f64 weights {:?}", w);
            ctx.label_if(k < -60, "float_scale_tiny");
            if src.ratio(1, 10) {
                let mut wn = w.clone();
                let j = src.below_usize(n);
                wn[j] = f64::NAN;
                let e = EncoderHuffmanTree::from_float_probabilities::<f64, _>(&wn);
                let d = DecoderHuffmanTree::from_float_probabilities::<f64, _>(&wn);
                vcheck!(e.is_err() && d.is_err(), "C15/nan_weight_accepted", "NaN at position {}: encoder {:?}, decoder {:?}", j, e.is_ok(), d.is_ok());
                ctx.label("nan_rejected");
            }
            let enc = match EncoderHuffmanTree::from_float_probabilities::<f64, _>(&w) {
                Ok(t) => t,
                Err(e) => vfail!("C15/float_weights_rejected", "{:?}", e),
            };
            let dec = match DecoderHuffmanTree::from_float_probabilities::<f64, _>(&w) {
                Ok(t) => t,
                Err(e) => vfail!("C15/float_weights_rejected", "{:?}", e),
            };
            let r = ref_huffman(&w);
            check_trees(ctx, &enc, &dec, &r, &w, exact, "f64")
        }
    }
}
