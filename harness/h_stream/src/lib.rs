//! Harness binary for the stream coders (ANS stack coder, range coder).

#[macro_use]
mod cfg;
mod ansmsg;
mod c01;
mod c07;
mod c08;
mod c11;
mod rangemsg;

use vengine::{PanicPolicy, Target};

/// All targets of this harness crate (used by the worker binary and by the libFuzzer crate).
pub fn targets() -> Vec<Target> {
    vec![Target {
        name: "c01_ans",
        props: "C01",
        policy: PanicPolicy::AllViolations,
        max_len: 1024,
        run: c01::c01_ans,
    },
    Target {
        name: "range_msg",
        props: "C02 C06 C12 C18 (param selects the oracle)",
        policy: PanicPolicy::AllViolations,
        max_len: 1024,
        run: rangemsg::range_msg,
    },
    Target {
        name: "c04_bitsback",
        props: "C04",
        policy: PanicPolicy::AllViolations,
        max_len: 1024,
        run: ansmsg::c04_bitsback,
    },
    Target {
        name: "ans_msg",
        props: "C06 C12 (param selects the oracle)",
        policy: PanicPolicy::AllViolations,
        max_len: 1024,
        run: ansmsg::ans_msg,
    },
    Target {
        name: "ans_sizes",
        props: "C18",
        policy: PanicPolicy::AllViolations,
        max_len: 1024,
        run: ansmsg::ans_sizes,
    },
    Target {
        name: "c11_suffix",
        props: "C11",
        policy: PanicPolicy::AllViolations,
        max_len: 2048,
        run: c11::c11_suffix,
    },
    Target {
        name: "c07_range",
        props: "C07",
        policy: PanicPolicy::AllViolations,
        max_len: 1024,
        run: c07::c07_range,
    },
    Target {
        name: "c07_ans",
        props: "C07",
        policy: PanicPolicy::AllViolations,
        max_len: 1024,
        run: c07::c07_ans,
    },
    Target {
        name: "c08_ans",
        props: "C08",
        policy: PanicPolicy::AllViolations,
        max_len: 1024,
        run: c08::c08_ans,
    },
    Target {
        name: "c08_range",
        props: "C08",
        policy: PanicPolicy::AllViolations,
        max_len: 1024,
        run: c08::c08_range,
    }]
}
