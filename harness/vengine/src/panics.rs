//! Panic capture and classification.
//!
//! A process-wide panic hook records message and location of every panic in a
//! thread-local slot *before* the runtime decides whether to unwind or abort.  For
//! panics that cannot unwind (std's `unsafe precondition(s) violated` checks) the hook
//! additionally writes an abort record to the file configured with [`set_abort_file`],
//! so that the driver can attribute the death of the worker to the running case.

use std::cell::RefCell;
use std::io::Write;
use std::panic::{self, AssertUnwindSafe};
use std::sync::atomic::{AtomicBool, AtomicU64, Ordering};
use std::sync::{Mutex, Once};

#[derive(Clone, Copy, Debug, PartialEq, Eq)]
pub enum PanicClass {
    /// std unsafe-precondition check, arithmetic overflow / shift overflow check (exist
    /// only in checked builds; release builds would run into UB or wrap silently).
    Ub,
    /// Everything that behaves identically in release builds.
    Clean,
}

#[derive(Clone, Copy, Debug, PartialEq, Eq)]
pub enum PanicOrigin {
    /// `/repo/src/**`
    Repo,
    /// inside the standard library (`/rustc/...`), reached from the code under test
    Std,
    /// a crate from the registry (e.g. `probability`): generator left that crate's contract
    Dependency,
    /// `/verif/**`: a bug of the harness
    Harness,
}

#[derive(Clone, Debug)]
pub struct PanicInfo {
    pub class: PanicClass,
    pub origin: PanicOrigin,
    pub msg: String,
    pub file: String,
    pub line: u32,
}

impl PanicInfo {
    pub fn file_short(&self) -> String {
        let f = &self.file;
        if let Some(i) = f.find("/repo/") {
            f[i + 6..].to_string()
        } else if let Some(rest) = repo_root().and_then(|r| f.strip_prefix(r)) {
            rest.to_string()
        } else if let Some(i) = f.find("/library/") {
            f[i + 1..].to_string()
        } else if let Some(i) = f.find("/registry/src/") {
            let rest = &f[i + 14..];
            match rest.find('/') {
                Some(j) => rest[j + 1..].to_string(),
                None => rest.to_string(),
            }
        } else {
            f.clone()
        }
    }
    /// Message with digits and hex removed, cut to a stable prefix.
    pub fn msg_norm(&self) -> String {
        let mut out = String::new();
        let mut last_hash = false;
        for ch in self.msg.chars() {
            if ch.is_ascii_digit() {
                if !last_hash {
                    out.push('#');
                    last_hash = true;
                }
            } else if ch == '\n' {
                break;
            } else {
                out.push(ch);
                last_hash = false;
            }
            if out.len() >= 60 {
                break;
            }
        }
        out.trim().to_string()
    }
    /// Signature used for violations caused by this panic. It deliberately contains the
    /// file but not the line (lines move when the code is edited).
    pub fn signature(&self) -> String {
        let class = match self.class {
            PanicClass::Ub => "ub",
            PanicClass::Clean => "clean",
        };
        format!("panic/{}/{}/{}", class, self.file_short(), self.msg_norm())
    }
    pub fn render(&self) -> String {
        format!(
            "panic ({:?}, {:?}) at {}:{}: {}",
            self.class, self.origin, self.file, self.line, self.msg
        )
    }
}

pub fn classify_msg(msg: &str) -> PanicClass {
    const UB: &[&str] = &[
        "unsafe precondition(s) violated",
        "attempt to add with overflow",
        "attempt to subtract with overflow",
        "attempt to multiply with overflow",
        "attempt to negate with overflow",
        "attempt to shift left with overflow",
        "attempt to shift right with overflow",
        "attempt to divide with overflow",
        "attempt to calculate the remainder with overflow",
        "misaligned pointer dereference",
        "null pointer dereference",
        "entered unreachable code: unreachable_unchecked",
        "internal error: entered unreachable code: unsafe",
    ];
    if UB.iter().any(|p| msg.contains(p)) {
        PanicClass::Ub
    } else {
        PanicClass::Clean
    }
}

/// The directory of the repository under test when it is not `/repo` (scratch copies, worktrees): the driver passes it on
/// in `VERIF_REPO_PATH`, taken from the path dependency in `harness/Cargo.toml`.
fn repo_root() -> Option<&'static str> {
    static ROOT: std::sync::OnceLock<Option<String>> = std::sync::OnceLock::new();
    ROOT.get_or_init(|| std::env::var("VERIF_REPO_PATH").ok().filter(|s| !s.is_empty()).map(|s| if s.ends_with('/') { s } else { s + "/" })).as_deref()
}

pub fn classify_origin(file: &str) -> PanicOrigin {
    if file.starts_with("/repo/") || file.contains("/repo/src/") || repo_root().map_or(false, |r| file.starts_with(r)) {
        PanicOrigin::Repo
    } else if file.contains("/verif/") || file.starts_with("h_") || file.starts_with("hcommon")
        || file.starts_with("vengine") || file.starts_with("src/") || file.starts_with("fuzz_targets/")
    {
        PanicOrigin::Harness
    } else if file.starts_with("/rustc/") || file.contains("/library/") || file.contains("rustlib/src") {
        PanicOrigin::Std
    } else {
        PanicOrigin::Dependency
    }
}

thread_local! {
    static LAST: RefCell<Option<PanicInfo>> = const { RefCell::new(None) };
}
static VERBOSE: AtomicBool = AtomicBool::new(false);
pub static CURRENT_INDEX: AtomicU64 = AtomicU64::new(u64::MAX);
static ABORT_FILE: Mutex<Option<String>> = Mutex::new(None);
static INSTALL: Once = Once::new();

pub fn set_verbose(v: bool) {
    VERBOSE.store(v, Ordering::Relaxed);
}
pub fn set_abort_file(path: Option<String>) {
    *ABORT_FILE.lock().unwrap() = path;
}

fn is_nounwind(msg: &str) -> bool {
    msg.contains("unsafe precondition(s) violated")
        || msg.contains("panic in a function that cannot unwind")
        || msg.contains("panic in a destructor during cleanup")
        || msg.contains("misaligned pointer dereference")
        || msg.contains("null pointer dereference")
}

pub fn install_hook() {
    INSTALL.call_once(|| {
        panic::set_hook(Box::new(|info| {
            let msg = if let Some(s) = info.payload().downcast_ref::<&str>() {
                s.to_string()
            } else if let Some(s) = info.payload().downcast_ref::<String>() {
                s.clone()
            } else {
                "<non-string panic payload>".to_string()
            };
            let (file, line) = match info.location() {
                Some(l) => (l.file().to_string(), l.line()),
                None => ("<unknown>".to_string(), 0),
            };
            let pi = PanicInfo {
                class: classify_msg(&msg),
                origin: classify_origin(&file),
                msg,
                file,
                line,
            };
            if VERBOSE.load(Ordering::Relaxed) {
                eprintln!("[hook] {}", pi.render());
            }
            // Keep the *first* panic of a case (a second one during unwinding would abort).
            let nounwind = is_nounwind(&pi.msg);
            let first = LAST.with(|l| {
                let mut l = l.borrow_mut();
                if l.is_none() {
                    *l = Some(pi.clone());
                    true
                } else {
                    false
                }
            });
            if nounwind {
                // The process is about to abort: leave a record for the driver.
                let rec = LAST.with(|l| l.borrow().clone()).unwrap_or(pi.clone());
                let _ = first;
                let idx = CURRENT_INDEX.load(Ordering::Relaxed);
                let line = format!(
                    "{{\"abort\":true,\"index\":{},\"sig\":{},\"detail\":{}}}\n",
                    idx,
                    crate::json::quote(&rec.signature()),
                    crate::json::quote(&rec.render())
                );
                if let Ok(g) = ABORT_FILE.lock() {
                    if let Some(path) = g.as_ref() {
                        if let Ok(mut f) = std::fs::OpenOptions::new().create(true).append(true).open(path) {
                            let _ = f.write_all(line.as_bytes());
                            let _ = f.sync_all();
                        }
                    }
                }
                // Also on stdout for `replay` (parsed by the driver and by the subprocess shrinker).
                println!("ABORT-RECORD {}", line.trim_end());
                let _ = std::io::stdout().flush();
            }
        }));
    });
}

/// Runs `f`, converting a panic into a classified [`PanicInfo`].
pub fn catch<T>(f: impl FnOnce() -> T) -> Result<T, PanicInfo> {
    install_hook();
    LAST.with(|l| *l.borrow_mut() = None);
    match panic::catch_unwind(AssertUnwindSafe(f)) {
        Ok(v) => Ok(v),
        Err(_) => {
            let pi = LAST.with(|l| l.borrow_mut().take());
            Err(pi.unwrap_or(PanicInfo {
                class: PanicClass::Clean,
                origin: PanicOrigin::Harness,
                msg: "panic without hook record".into(),
                file: "<unknown>".into(),
                line: 0,
            }))
        }
    }
}
