//! Harness binary for the symbol codes (Huffman, Exp-Golomb), the bit-level stack/queue
//! coders and the word backends.

mod c15;
mod c16;
mod c17;

use vengine::{PanicPolicy, Target};

/// All targets of this harness crate (used by the worker binary and by the libFuzzer crate).
pub fn targets() -> Vec<Target> {
    vec![
        Target { name: "c15_huffman", props: "C15", policy: PanicPolicy::AllViolations, max_len: 2048, run: c15::c15_huffman },
        Target { name: "c16_bits", props: "C16 C08 C18 (param selects the oracle)", policy: PanicPolicy::AllViolations, max_len: 1024, run: c16::c16_bits },
        Target { name: "c16_batch", props: "C16", policy: PanicPolicy::AllViolations, max_len: 512, run: c16::c16_batch },
        Target { name: "c17_backends", props: "C17", policy: PanicPolicy::AllViolations, max_len: 1024, run: c17::c17_backends },
    ]
}
