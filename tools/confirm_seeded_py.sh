#!/bin/bash
# usage: tools/confirm_seeded_py.sh <name> <dir with patch.diff + seeded_demo.py>
# Confirms a seeded change of the Python front end in a scratch worktree: demo passes without the change; with it the
# crate compiles, the existing Rust suite passes, the Python module builds and the demo fails. Removes the worktree.
set -u
NAME=$1; DIR=$(realpath $2)
WT=/tmp/wt/confirm_$NAME
git -C /repo worktree remove --force $WT 2>/dev/null
git -C /repo worktree add --detach $WT HEAD -q || exit 2
cd $WT
build() { PYO3_PYTHON=/opt/veriftools/pyvenv/bin/python CARGO_TARGET_DIR=/tmp/wt/target_confirm_py cargo build --release --quiet --features pybindings --offline 2>&1 | grep -E "^error" ; mkdir -p $WT/pymod; cp /tmp/wt/target_confirm_py/release/libconstriction.so $WT/pymod/constriction.so; }
build
PYTHONPATH=$WT/pymod timeout 600 /opt/veriftools/pyvenv/bin/python $DIR/seeded_demo.py >/dev/null 2>&1; A=$?
git apply $DIR/patch.diff || { echo "PATCH does not apply"; exit 2; }
CARGO_TARGET_DIR=/tmp/wt/target_confirm cargo test --workspace --no-fail-fast --offline >/tmp/wt/confirm_$NAME.log 2>&1; B=$?
build
PYTHONPATH=$WT/pymod timeout 600 /opt/veriftools/pyvenv/bin/python $DIR/seeded_demo.py >/dev/null 2>&1; C=$?
cd /; git -C /repo worktree remove --force $WT
echo "RESULT $NAME demo_without=$A suite_with=$B demo_with=$C  (want 0 0 nonzero)"
