//! Categorical and uniform models.  `ctx.param` selects the property:
//!
//! * `3`  — C03: models built from *valid* inputs satisfy the validity predicate.
//! * `19` — C19: constructors fed *any* input either fail cleanly or build a valid model.
//! * `5`  — C05: all representations of one model list identical triples.
//! * `18` — C18: information-theoretic diagnostics equal their textbook definitions.

use crate::gen::*;
use crate::validate::*;
use constriction::stream::model::*;
use vengine::{note, vcheck, CaseResult, Ctx, Fail, Src};

fn prop_of(mode: u64) -> &'static str {
    match mode {
        19 => "C19",
        5 | 18 => "FOREIGN",
        _ => "C03",
    }
}

/// Outcome of a constructor call under `vengine::catch`.
pub enum Built<T> {
    Ok(T),
    Rejected,
    Panicked(vengine::PanicInfo),
}

pub fn build<T>(f: impl FnOnce() -> Result<T, ()>) -> Built<T> {
    match vengine::catch(f) {
        Ok(Ok(m)) => Built::Ok(m),
        Ok(Err(())) => Built::Rejected,
        Err(p) => Built::Panicked(p),
    }
}

/// For valid inputs (C03/C05/C18) a panicking constructor is a violation; a rejected valid
/// input is only recorded. For hostile inputs (C19) both are accepted outcomes.
macro_rules! built_or_return {
    ($ctx:expr, $mode:expr, $b:expr, $what:expr) => {
        match $b {
            Built::Ok(m) => m,
            Built::Rejected => {
                $ctx.label(if $mode == 19 { "ctor_rejected" } else { "rejected_valid" });
                return Ok(());
            }
            Built::Panicked(p) => {
                if $mode == 19 {
                    if p.class == vengine::PanicClass::Ub && $ctx.ubonly && p.origin != vengine::PanicOrigin::Dependency {
                        // C20 (UB-only mode): arithmetic that only release builds would let pass
                        return Err(Fail::new(p.signature(), format!("{}: {}", $what, p.render())));
                    }
                    $ctx.label(if p.class == vengine::PanicClass::Ub { "ctor_panicked_ub_class" } else { "ctor_panicked" });
                    return Ok(());
                } else if p.origin == vengine::PanicOrigin::Harness {
                    panic!("harness bug inside constructor closure: {}", p.render());
                } else {
                    return Err(Fail::new(format!("{}/constructor_panicked_on_valid_input/{}", prop_of($mode), p.signature()), format!("{}: {}", $what, p.render())));
                }
            }
        }
    };
}

macro_rules! cat_cfg {
    ($name:ident, $label:literal, $Pr:ty, $P:literal, lookup = $lookup:tt) => {
        pub fn $name(src: &mut Src, ctx: &mut Ctx) -> CaseResult {
            const P: usize = $P;
            type Pr = $Pr;
            let mode = ctx.param;
            let prop = prop_of(mode);
            let hostile = mode == 19;
            ctx.label(concat!("cfg:", $label));
            note!(ctx, "cfg {} mode {}", $label, mode);
            let total: u64 = 1u64 << P;
            let bits = <Pr>::BITS;
            let kusize = |s: &usize| *s as i64;
            let exhaustive_up_to = if ctx.tier == 0 { 4096 } else { 65536 };
            let family = src.below(9);
            match family {
                // ---------------------------------------------------------------- uniform
                0 => {
                    ctx.label("family:uniform");
                    let range: usize = if hostile {
                        match src.below(6) {
                            0 => 0,
                            1 => 1,
                            2 => total as usize,
                            3 => total as usize + 1,
                            4 => usize::MAX,
                            _ => src.edgy(total + 2) as usize,
                        }
                    } else {
                        (2 + src.edgy(total - 1)) as usize
                    };
                    note!(ctx, "UniformModel::new({})", range);
                    let m = built_or_return!(ctx, mode, build(|| Ok(UniformModel::<Pr, P>::new(range))), "UniformModel::new");
                    let what = format!("UniformModel<{},{}>::new({})", stringify!($Pr), P, range);
                    if hostile {
                        vcheck!(range >= 2 && range as u64 <= total, "C19/uniform_accepted_invalid_range", "{} was accepted", what);
                    }
                    let n = if range as u64 > exhaustive_up_to { None } else { Some(range) };
                    if let Some(n) = n {
                        let t = table_from_encoder::<_, P>(&m, 0..n, kusize, prop, &what)?;
                        check_tiling(&t, prop, &what)?;
                        let qs = quantiles(&t, src, exhaustive_up_to, 32);
                        check_decoder::<_, P>(&m, &t, &qs, kusize, prop, &what)?;
                        let it = table_from_iter::<_, P>(&m, kusize);
                        if mode == 5 {
                            comparing(true);
                            tables_equal(&t, &it, "encoder view", "symbol_table")?;
                            tables_equal(&t, &table_from_iter::<_, P>(&&m, kusize), "encoder view", "symbol_table of reference")?;
                            let ge = m.to_generic_encoder_model();
                            tables_equal(&t, &table_from_encoder::<_, P>(&ge, 0..n, kusize, "C05", "to_generic_encoder_model")?, "encoder view", "generic encoder model")?;
                            let gd = m.to_generic_decoder_model();
                            tables_equal(&t, &table_from_iter::<_, P>(&gd, kusize), "encoder view", "generic decoder model")?;
                            check_decoder::<_, P>(&gd, &t, &qs, kusize, "C05", "to_generic_decoder_model")?;
                            comparing(false);
                        }
                        if mode == 18 {
                            diagnostics::<_, P>(&m, &t, src, ctx, &what)?;
                            float_probability_view::<_, P>(&m, &t, &[n, n + 1, usize::MAX], &what)?;
                        }
                        if n >= 3 {
                            ctx.nontrivial();
                        }
                    } else {
                        // too large to walk: probe both ends and random symbols through both views
                        for &s in &[0usize, 1, range - 2, range - 1, src.below_usize(range)] {
                            let (l, p) = match m.left_cumulative_and_probability(s) {
                                Some(x) => x,
                                None => return Err(Fail::new(format!("{prop}/support_symbol_impossible"), format!("{what}: symbol {s}"))),
                            };
                            let (l, p): (u64, u64) = (l.into(), p.get().into());
                            vcheck!(p > 0 && l + p <= total, format!("{prop}/intervals_exceed_total"), "{}: symbol {} -> ({}, {})", what, s, l, p);
                            for q in [l, l + p - 1] {
                                let (s2, l2, p2) = m.quantile_function(q as Pr);
                                vcheck!((s2, l2 as u64, p2.get() as u64) == (s, l, p), format!("{prop}/quantile_function_disagrees_with_encoder"), "{}: quantile {} -> ({}, {}, {}) but symbol {} has ({}, {})", what, q, s2, l2, p2, s, l, p);
                            }
                        }
                        ctx.nontrivial();
                    }
                    // symbols outside the support, including values that alias an in-support
                    // symbol after narrowing to the probability type
                    let mut outside = vec![range, range.wrapping_add(1), usize::MAX];
                    if (bits as u32) < usize::BITS {
                        outside.push((1usize << bits) + src.below_usize(range));
                        outside.push((1usize << bits) * 3 + range - 1);
                    }
                    outside.retain(|&s| s >= range);
                    check_outside::<_, P>(&m, &outside, kusize, prop, &what)?;
                }
                // ------------------------------------------ contiguous from float tables
                1 | 2 | 3 | 4 | 5 => {
                    let max_fast = (total as usize).saturating_sub(2).max(2);
                    let n_max = if ctx.tier == 0 { 64 } else { 600 };
                    let n = if hostile {
                        0
                    } else {
                        match src.below(8) {
                            0 => max_fast.min(4096),                  // largest length the fast constructors accept
                            1 => (total as usize).min(4096),          // 2^P entries (perfect: every symbol gets one quantum)
                            _ => 2 + src.below_usize(n_max.min(max_fast).max(2) - 1),
                        }
                    };
                    let tab64: Vec<f64> = if hostile {
                        let cap = (total as usize + 2).min(70);
                        match src.below(4) {
                            0 => hostile_float_table(src, ((total + 2).min(4100)) as usize),
                            _ => hostile_float_table(src, cap),
                        }
                    } else {
                        valid_float_table(src, n)
                    };
                    let use_f32 = src.bool();
                    let tab32: Vec<f32> = if hostile { tab64.iter().map(|&x| x as f32).collect() } else { to_f32_valid(&tab64) };
                    let n = tab64.len();
                    // user supplied normalisation: exact left-to-right sum (valid) or anything (hostile)
                    let norm_kind = src.below(if hostile { 7 } else { 2 });
                    let norm64: Option<f64> = match norm_kind {
                        0 => None,
                        1 => Some(tab64.iter().copied().sum::<f64>()),
                        2 => {
                            // slightly off when the sum is finite; otherwise (NaN / infinite entries) a plausible
                            // finite positive value, so that the entry checks and not the normalisation check
                            // have to reject the table
                            let s = tab64.iter().copied().sum::<f64>();
                            if s.is_finite() {
                                Some(s * 1.000001)
                            } else {
                                let r: f64 = tab64.iter().copied().filter(|x| x.is_finite() && *x > 0.0 && *x < 1e300).sum();
                                Some(if r > 0.0 && r.is_finite() { r } else { 1.0 })
                            }
                        }
                        3 => Some(0.0),
                        4 => Some(-1.0),
                        5 => Some(f64::NAN),
                        _ => Some(f64::INFINITY),
                    };
                    let norm32: Option<f32> = match norm_kind {
                        0 => None,
                        1 => Some(tab32.iter().copied().sum::<f32>()),
                        _ => norm64.map(|x| x as f32),
                    };
                    // C05 only: a caller-supplied normalisation slightly ABOVE the left-to-right sum (the documentation
                    // asks for the exact sum because a smaller value can overflow; a larger one cannot). Every
                    // representation built from the same arguments must still be the same model.
                    let (norm64, norm32) = if mode == 5 && !hostile && norm_kind == 1 && n % 4 == 3 {
                        ctx.label("normalisation_above_the_sum");
                        (norm64.map(|x| x * 1.000001), norm32.map(|x| x * 1.0001))
                    } else {
                        (norm64, norm32)
                    };
                    if use_f32 {
                        note!(ctx, "f32 table {} normalization {:?}", debug_list(&tab32), norm32);
                    } else {
                        note!(ctx, "f64 table {} normalization {:?}", debug_list(&tab64), norm64);
                    }
                    let what = format!("<{},{}> {} table of {} entries", stringify!($Pr), P, if use_f32 { "f32" } else { "f64" }, n);
                    match family {
                        1 => {
                            ctx.label("family:contiguous_fast");
                            let b = if use_f32 {
                                build(|| ContiguousCategoricalEntropyModel::<Pr, _, P>::from_floating_point_probabilities_fast(&tab32, norm32))
                            } else {
                                build(|| ContiguousCategoricalEntropyModel::<Pr, _, P>::from_floating_point_probabilities_fast(&tab64, norm64))
                            };
                            let m = built_or_return!(ctx, mode, b, &what);
                            let what = format!("contiguous _fast {}", what);
                            let t = contiguous_checks::<Pr, P>(&m, n, src, ctx, prop, &what, exhaustive_up_to)?;
                            lookup_conversions!($lookup, P, m, t, src, ctx, exhaustive_up_to, kusize, mode, what);
                            if mode == 5 {
                                comparing(true);
                                // lazily evaluated model built by the same-named constructor
                                // (the lazy decoder must also invert the *eager* encoder: data encoded
                                // with one representation decodes with the other)
                                let qs5 = quantiles(&t, src, exhaustive_up_to.min(1024), 16);
                                let tl = if use_f32 {
                                    match other_ctor(|| LazyContiguousCategoricalEntropyModel::<Pr, f32, _, P>::from_floating_point_probabilities_fast(&tab32[..], norm32)) {
                                        Ok(l) => {
                                            check_decoder::<_, P>(&l, &t, &qs5, kusize, "C05", "lazy _fast decoder vs eager _fast encoder")?;
                                            Some(table_from_encoder::<_, P>(&l, 0..n, kusize, "C05", "lazy _fast")?)
                                        }
                                        Err(()) => None,
                                    }
                                } else {
                                    match other_ctor(|| LazyContiguousCategoricalEntropyModel::<Pr, f64, _, P>::from_floating_point_probabilities_fast(&tab64[..], norm64)) {
                                        Ok(l) => {
                                            check_decoder::<_, P>(&l, &t, &qs5, kusize, "C05", "lazy _fast decoder vs eager _fast encoder")?;
                                            Some(table_from_encoder::<_, P>(&l, 0..n, kusize, "C05", "lazy _fast")?)
                                        }
                                        Err(()) => None,
                                    }
                                };
                                match tl {
                                    Some(tl) => tables_equal(&t, &tl, "eager _fast", "lazy _fast")?,
                                    None => return Err(Fail::new("C05/lazy_rejects_what_eager_accepts", what.clone())),
                                }
                                // non-contiguous models with identity relabelling
                                let syms: Vec<usize> = (0..n).collect();
                                let (ne, nd) = other_ctor(|| if use_f32 {
                                    (
                                        NonContiguousCategoricalEncoderModel::<usize, Pr, P>::from_symbols_and_floating_point_probabilities_fast(syms.iter().cloned(), &tab32, norm32),
                                        NonContiguousCategoricalDecoderModel::<usize, Pr, _, P>::from_symbols_and_floating_point_probabilities_fast(syms.iter().cloned(), &tab32, norm32),
                                    )
                                } else {
                                    (
                                        NonContiguousCategoricalEncoderModel::<usize, Pr, P>::from_symbols_and_floating_point_probabilities_fast(syms.iter().cloned(), &tab64, norm64),
                                        NonContiguousCategoricalDecoderModel::<usize, Pr, _, P>::from_symbols_and_floating_point_probabilities_fast(syms.iter().cloned(), &tab64, norm64),
                                    )
                                });
                                match (ne, nd) {
                                    (Ok(ne), Ok(nd)) => {
                                        tables_equal(&t, &table_from_encoder::<_, P>(&ne, 0..n, kusize, "C05", "non-contiguous encoder _fast")?, "contiguous _fast", "non-contiguous encoder _fast")?;
                                        tables_equal(&t, &table_from_iter::<_, P>(&nd, kusize), "contiguous _fast", "non-contiguous decoder _fast")?;
                                        check_decoder::<_, P>(&nd, &t, &qs5, kusize, "C05", "non-contiguous _fast decoder vs contiguous _fast encoder")?;
                                    }
                                    _ => return Err(Fail::new("C05/noncontiguous_rejects_what_contiguous_accepts", what.clone())),
                                }
                                lookup_vs_searched!($lookup, Pr, P, t, tab32, tab64, norm32, norm64, use_f32, fast, src, exhaustive_up_to, n, kusize);
                                comparing(false);
                            }
                        }
                        2 => {
                            ctx.label("family:contiguous_perfect");
                            let b = if use_f32 {
                                build(|| ContiguousCategoricalEntropyModel::<Pr, _, P>::from_floating_point_probabilities_perfect(&tab32))
                            } else {
                                build(|| ContiguousCategoricalEntropyModel::<Pr, _, P>::from_floating_point_probabilities_perfect(&tab64))
                            };
                            let m = built_or_return!(ctx, mode, b, &what);
                            let what = format!("contiguous _perfect {}", what);
                            let t = contiguous_checks::<Pr, P>(&m, n, src, ctx, prop, &what, exhaustive_up_to)?;
                            lookup_conversions!($lookup, P, m, t, src, ctx, exhaustive_up_to, kusize, mode, what);
                            if mode == 5 {
                                comparing(true);
                                let syms: Vec<usize> = (0..n).collect();
                                let (ne, nd) = other_ctor(|| if use_f32 {
                                    (
                                        NonContiguousCategoricalEncoderModel::<usize, Pr, P>::from_symbols_and_floating_point_probabilities_perfect(syms.iter().cloned(), &tab32),
                                        NonContiguousCategoricalDecoderModel::<usize, Pr, _, P>::from_symbols_and_floating_point_probabilities_perfect(syms.iter().cloned(), &tab32),
                                    )
                                } else {
                                    (
                                        NonContiguousCategoricalEncoderModel::<usize, Pr, P>::from_symbols_and_floating_point_probabilities_perfect(syms.iter().cloned(), &tab64),
                                        NonContiguousCategoricalDecoderModel::<usize, Pr, _, P>::from_symbols_and_floating_point_probabilities_perfect(syms.iter().cloned(), &tab64),
                                    )
                                });
                                match (ne, nd) {
                                    (Ok(ne), Ok(nd)) => {
                                        tables_equal(&t, &table_from_encoder::<_, P>(&ne, 0..n, kusize, "C05", "non-contiguous encoder _perfect")?, "contiguous _perfect", "non-contiguous encoder _perfect")?;
                                        tables_equal(&t, &table_from_iter::<_, P>(&nd, kusize), "contiguous _perfect", "non-contiguous decoder _perfect")?;
                                    }
                                    _ => return Err(Fail::new("C05/noncontiguous_rejects_what_contiguous_accepts", what.clone())),
                                }
                                lookup_vs_searched!($lookup, Pr, P, t, tab32, tab64, norm32, norm64, use_f32, perfect, src, exhaustive_up_to, n, kusize);
                                comparing(false);
                            }
                        }
                        3 => {
                            ctx.label("family:lazy_fast");
                            let what = format!("lazy _fast {}", what);
                            if use_f32 {
                                let b = build(|| LazyContiguousCategoricalEntropyModel::<Pr, f32, _, P>::from_floating_point_probabilities_fast(&tab32[..], norm32));
                                let m = built_or_return!(ctx, mode, b, &what);
                                let t = table_from_encoder::<_, P>(&m, 0..n, kusize, prop, &what)?;
                                check_tiling(&t, prop, &what)?;
                                let qs = quantiles(&t, src, exhaustive_up_to.min(1024), 16);
                                check_decoder::<_, P>(&m, &t, &qs, kusize, prop, &what)?;
                                check_outside::<_, P>(&m, &[n, n + 1, usize::MAX], kusize, prop, &what)?;
                                if mode == 5 {
                                    comparing(true);
                                    tables_equal(&t, &table_from_encoder::<_, P>(&m.as_view(), 0..n, kusize, "C05", "lazy as_view")?, "lazy model", "lazy as_view")?;
                                    tables_equal(&t, &table_from_encoder::<_, P>(&&m, 0..n, kusize, "C05", "&lazy")?, "lazy model", "reference to lazy model")?;
                                    comparing(false);
                                }
                            } else {
                                let b = build(|| LazyContiguousCategoricalEntropyModel::<Pr, f64, _, P>::from_floating_point_probabilities_fast(&tab64[..], norm64));
                                let m = built_or_return!(ctx, mode, b, &what);
                                let t = table_from_encoder::<_, P>(&m, 0..n, kusize, prop, &what)?;
                                check_tiling(&t, prop, &what)?;
                                let qs = quantiles(&t, src, exhaustive_up_to.min(1024), 16);
                                check_decoder::<_, P>(&m, &t, &qs, kusize, prop, &what)?;
                                check_outside::<_, P>(&m, &[n, n + 1, usize::MAX], kusize, prop, &what)?;
                                if mode == 5 {
                                    comparing(true);
                                    tables_equal(&t, &table_from_encoder::<_, P>(&m.as_view(), 0..n, kusize, "C05", "lazy as_view")?, "lazy model", "lazy as_view")?;
                                    comparing(false);
                                }
                            }
                            if n >= 3 {
                                ctx.nontrivial();
                            }
                        }
                        4 => {
                            // non-contiguous encoder + decoder with arbitrary distinct symbols
                            ctx.label("family:non_contiguous");
                            let base = src.u32() as i32;
                            let stride = 1 + src.below(1000) as i32;
                            let mut syms: Vec<i32> = (0..n as i32).map(|i| base.wrapping_add(i.wrapping_mul(stride))).collect();
                            if src.bool() {
                                syms.reverse();
                            }
                            // hostile: mismatched counts and duplicates
                            let mut syms_in = syms.clone();
                            let mut mismatch = false;
                            if hostile {
                                match src.below(5) {
                                    0 => {
                                        syms_in.truncate(src.below_usize(n + 1));
                                        mismatch = syms_in.len() != n;
                                    }
                                    1 => {
                                        syms_in.push(base.wrapping_sub(7));
                                        syms_in.push(base.wrapping_sub(9));
                                        mismatch = true;
                                    }
                                    2 if n >= 2 => {
                                        syms_in[n - 1] = syms_in[0];
                                    }
                                    _ => {}
                                }
                            }
                            let ki32 = |s: &i32| *s as i64;
                            // symbols through an iterator whose length the callee cannot know in advance (std takes a
                            // different `extend` / `zip` path for exactly sized slice iterators)
                            let opaque_symbols = syms_in.len() % 2 == 1 || n % 3 == 0;
                            let ctor = src.below(2);
                            let what = format!("non-contiguous {} {} with {} symbols", if ctor == 0 { "_fast" } else { "_perfect" }, what, syms_in.len());
                            note!(ctx, "symbols {}", debug_list(&syms_in));
                            let be = match (ctor, use_f32) {
                                (0, true) => build(|| if opaque_symbols { NonContiguousCategoricalEncoderModel::<i32, Pr, P>::from_symbols_and_floating_point_probabilities_fast(syms_in.iter().cloned().filter(|_| true), &tab32, norm32) } else { NonContiguousCategoricalEncoderModel::<i32, Pr, P>::from_symbols_and_floating_point_probabilities_fast(syms_in.iter().cloned(), &tab32, norm32) }),
                                (0, false) => build(|| if opaque_symbols { NonContiguousCategoricalEncoderModel::<i32, Pr, P>::from_symbols_and_floating_point_probabilities_fast(syms_in.iter().cloned().filter(|_| true), &tab64, norm64) } else { NonContiguousCategoricalEncoderModel::<i32, Pr, P>::from_symbols_and_floating_point_probabilities_fast(syms_in.iter().cloned(), &tab64, norm64) }),
                                (_, true) => build(|| if opaque_symbols { NonContiguousCategoricalEncoderModel::<i32, Pr, P>::from_symbols_and_floating_point_probabilities_perfect(syms_in.iter().cloned().filter(|_| true), &tab32) } else { NonContiguousCategoricalEncoderModel::<i32, Pr, P>::from_symbols_and_floating_point_probabilities_perfect(syms_in.iter().cloned(), &tab32) }),
                                (_, false) => build(|| if opaque_symbols { NonContiguousCategoricalEncoderModel::<i32, Pr, P>::from_symbols_and_floating_point_probabilities_perfect(syms_in.iter().cloned().filter(|_| true), &tab64) } else { NonContiguousCategoricalEncoderModel::<i32, Pr, P>::from_symbols_and_floating_point_probabilities_perfect(syms_in.iter().cloned(), &tab64) }),
                            };
                            let bd = match (ctor, use_f32) {
                                (0, true) => build(|| if opaque_symbols { NonContiguousCategoricalDecoderModel::<i32, Pr, _, P>::from_symbols_and_floating_point_probabilities_fast(syms_in.iter().cloned().filter(|_| true), &tab32, norm32) } else { NonContiguousCategoricalDecoderModel::<i32, Pr, _, P>::from_symbols_and_floating_point_probabilities_fast(syms_in.iter().cloned(), &tab32, norm32) }),
                                (0, false) => build(|| if opaque_symbols { NonContiguousCategoricalDecoderModel::<i32, Pr, _, P>::from_symbols_and_floating_point_probabilities_fast(syms_in.iter().cloned().filter(|_| true), &tab64, norm64) } else { NonContiguousCategoricalDecoderModel::<i32, Pr, _, P>::from_symbols_and_floating_point_probabilities_fast(syms_in.iter().cloned(), &tab64, norm64) }),
                                (_, true) => build(|| if opaque_symbols { NonContiguousCategoricalDecoderModel::<i32, Pr, _, P>::from_symbols_and_floating_point_probabilities_perfect(syms_in.iter().cloned().filter(|_| true), &tab32) } else { NonContiguousCategoricalDecoderModel::<i32, Pr, _, P>::from_symbols_and_floating_point_probabilities_perfect(syms_in.iter().cloned(), &tab32) }),
                                (_, false) => build(|| if opaque_symbols { NonContiguousCategoricalDecoderModel::<i32, Pr, _, P>::from_symbols_and_floating_point_probabilities_perfect(syms_in.iter().cloned().filter(|_| true), &tab64) } else { NonContiguousCategoricalDecoderModel::<i32, Pr, _, P>::from_symbols_and_floating_point_probabilities_perfect(syms_in.iter().cloned(), &tab64) }),
                            };
                            // decoder first (encoder may return early)
                            if let Built::Ok(d) = &bd {
                                if hostile {
                                    vcheck!(!mismatch, "C19/noncontiguous_decoder_accepted_mismatched_counts", "{}: {} symbols for {} probabilities were accepted", what, syms_in.len(), n);
                                }
                                let td = table_from_iter::<_, P>(d, ki32);
                                check_tiling(&td, prop, &format!("decoder {}", what))?;
                                let listed: Vec<i64> = td.rows.iter().map(|r| r.0).collect();
                                let expect: Vec<i64> = syms_in.iter().map(|&s| s as i64).collect();
                                vcheck!(listed == expect, format!("{prop}/noncontiguous_decoder_symbols"), "decoder {}: lists symbols {} but {} were supplied", what, debug_list(&listed), debug_list(&expect));
                                let qs = quantiles(&td, src, exhaustive_up_to, 32);
                                check_decoder::<_, P>(d, &td, &qs, ki32, prop, &format!("decoder {}", what))?;
                                if mode == 18 {
                                    diagnostics::<_, P>(d, &td, src, ctx, &format!("decoder {}", what))?;
                                }
                                if mode == 5 {
                                    comparing(true);
                                    tables_equal(&td, &table_from_iter::<_, P>(&d.as_view(), ki32), "non-contiguous decoder", "decoder as_view")?;
                                    tables_equal(&td, &table_from_iter::<_, P>(&d.to_generic_decoder_model(), ki32), "non-contiguous decoder", "generic decoder model")?;
                                    let ge = d.to_generic_encoder_model();
                                    tables_equal(&td, &table_from_encoder::<_, P>(&ge, syms_in.iter().cloned(), ki32, "C05", "generic encoder of decoder")?, "non-contiguous decoder", "generic encoder model")?;
                                    comparing(false);
                                }
                            } else if let Built::Panicked(p) = &bd {
                                if !hostile {
                                    return Err(Fail::new(format!("{}/constructor_panicked_on_valid_input/{}", prop, p.signature()), format!("decoder {}: {}", what, p.render())));
                                }
                            }
                            let e = built_or_return!(ctx, mode, be, &what);
                            if hostile {
                                vcheck!(!mismatch, "C19/noncontiguous_encoder_accepted_mismatched_counts", "{}: {} symbols for {} probabilities were accepted", what, syms_in.len(), n);
                            }
                            let te = table_from_encoder::<_, P>(&e, syms_in.iter().cloned(), ki32, prop, &format!("encoder {}", what))?;
                            check_tiling(&te, prop, &format!("encoder {}", what))?;
                            vcheck!(e.support_size() == syms_in.len(), format!("{prop}/noncontiguous_encoder_support_size"), "encoder {}: support_size {} for {} symbols", what, e.support_size(), syms_in.len());
                            check_outside::<_, P>(&e, &[base.wrapping_sub(1), base.wrapping_sub(stride), i32::MIN.wrapping_add(3)], ki32, prop, &what).or_else(|f| if syms_in.contains(&base.wrapping_sub(1)) || syms_in.contains(&base.wrapping_sub(stride)) || syms_in.contains(&i32::MIN.wrapping_add(3)) { Ok(()) } else { Err(f) })?;
                            if let Built::Ok(d) = &bd {
                                // encoder-only hash table versus decoder-only table (C03: same-named constructors agree; C05 statement)
                                let td = table_from_iter::<_, P>(d, ki32);
                                if mode == 5 || mode == 3 {
                                    comparing(true);
                                    tables_equal(&te, &td, "non-contiguous encoder", "non-contiguous decoder").map_err(|f| Fail::new(f.sig.replace("C05", prop), f.detail))?;
                                    comparing(false);
                                }
                            }
                            if n >= 3 {
                                ctx.nontrivial();
                            }
                        }
                        _ => {
                            lookup_family!($lookup, Pr, P, tab32, tab64, norm32, norm64, use_f32, src, ctx, mode, prop, what, exhaustive_up_to, n, kusize, hostile);
                        }
                    }
                }
                // ------------------------------------------------ fixed-point tables
                _ => {
                    ctx.label("family:fixed_point");
                    let infer = src.bool();
                    let full: Vec<u64> = if hostile { hostile_fixed_table(src, P as u32, bits as u32, 40) } else { valid_fixed_table(src, P as u32, if ctx.tier == 0 { 40 } else { 400 }) };
                    // with infer_last_probability the last entry is left out
                    let valid_full = !hostile || {
                        // decide validity in u128 arithmetic
                        let s: u128 = full.iter().map(|&x| x as u128).sum();
                        full.len() >= 2 && full.iter().all(|&x| x > 0) && s == total as u128
                    };
                    let given: Vec<Pr> = if infer && !full.is_empty() { full[..full.len() - 1].iter().map(|&x| x as Pr).collect() } else { full.iter().map(|&x| x as Pr).collect() };
                    let n = if infer { given.len() + 1 } else { given.len() };
                    let what = format!("<{},{}> fixed-point table {} infer_last={}", stringify!($Pr), P, debug_list(&given), infer);
                    note!(ctx, "{}", what);
                    let which = src.below(if $lookup { 4 } else { 3 });
                    // validity of what is actually passed
                    let passed_valid = if infer {
                        let s: u128 = given.iter().map(|&x| x as u128).sum();
                        !given.is_empty() && given.iter().all(|&x| x > 0) && s < total as u128
                    } else {
                        valid_full
                    };
                    match which {
                        0 => {
                            let b = build(|| ContiguousCategoricalEntropyModel::<Pr, _, P>::from_nonzero_fixed_point_probabilities(given.iter(), infer));
                            if let (Built::Rejected, true, 19) = (&b, passed_valid, mode) {
                                // the statement singles this out: inferring the last probability works at every precision
                                return Err(Fail::new(format!("{prop}/valid_fixed_point_table_rejected{}", if infer { "/infer_last_probability" } else { "" }), format!("contiguous {}", what)));
                            }
                            let m = built_or_return!(ctx, mode, b, &what);
                            let t = contiguous_checks::<Pr, P>(&m, n, src, ctx, prop, &format!("contiguous {}", what), exhaustive_up_to)?;
                            lookup_conversions!($lookup, P, m, t, src, ctx, exhaustive_up_to, kusize, mode, what);
                            if !hostile {
                                let exp: Vec<u64> = full.clone();
                                let got: Vec<u64> = t.rows.iter().map(|r| r.2).collect();
                                vcheck!(got == exp, format!("{prop}/fixed_point_probabilities_not_preserved"), "contiguous {}: model has probabilities {}", what, debug_list(&got));
                            }
                        }
                        1 | 2 => {
                            let base = src.u32() as i32;
                            let syms: Vec<i32> = (0..n as i32).map(|i| base.wrapping_add(i.wrapping_mul(3))).collect();
                            let ki32 = |s: &i32| *s as i64;
                            if which == 1 {
                                let b = build(|| NonContiguousCategoricalEncoderModel::<i32, Pr, P>::from_symbols_and_nonzero_fixed_point_probabilities(syms.iter().cloned(), given.iter(), infer));
                                if let (Built::Rejected, true, 19) = (&b, passed_valid, mode) {
                                    return Err(Fail::new(format!("{prop}/valid_fixed_point_table_rejected{}", if infer { "/infer_last_probability" } else { "" }), format!("non-contiguous encoder {}", what)));
                                }
                                let e = built_or_return!(ctx, mode, b, &what);
                                let te = table_from_encoder::<_, P>(&e, syms.iter().cloned(), ki32, prop, &what)?;
                                check_tiling(&te, prop, &format!("non-contiguous encoder {}", what))?;
                            } else {
                                let b = build(|| NonContiguousCategoricalDecoderModel::<i32, Pr, _, P>::from_symbols_and_nonzero_fixed_point_probabilities(syms.iter().cloned(), given.iter(), infer));
                                if let (Built::Rejected, true, 19) = (&b, passed_valid, mode) {
                                    return Err(Fail::new(format!("{prop}/valid_fixed_point_table_rejected{}", if infer { "/infer_last_probability" } else { "" }), format!("non-contiguous decoder {}", what)));
                                }
                                let d = built_or_return!(ctx, mode, b, &what);
                                let td = table_from_iter::<_, P>(&d, ki32);
                                check_tiling(&td, prop, &format!("non-contiguous decoder {}", what))?;
                                let qs = quantiles(&td, src, exhaustive_up_to, 32);
                                check_decoder::<_, P>(&d, &td, &qs, ki32, prop, &format!("non-contiguous decoder {}", what))?;
                            }
                            if n >= 3 {
                                ctx.nontrivial();
                            }
                        }
                        _ => {
                            lookup_fixed!($lookup, Pr, P, given, infer, passed_valid, src, ctx, mode, prop, what, exhaustive_up_to, kusize);
                        }
                    }
                }
            }
            Ok(())
        }
    };
}

/// Checks shared by all contiguous models: encoder view tiles, decoder agrees, outside
/// symbols are impossible; mode 5: every accessor / conversion; mode 18: diagnostics.
fn contiguous_checks<Pr, const P: usize>(
    m: &ContiguousCategoricalEntropyModel<Pr, Vec<Pr>, P>,
    n: usize,
    src: &mut Src,
    ctx: &mut Ctx,
    prop: &str,
    what: &str,
    exhaustive_up_to: u64,
) -> Result<Table, Fail>
where
    Pr: constriction::BitArray + Into<u64> + Into<f64>,
    f64: From<Pr>,
    u64: num_traits::AsPrimitive<Pr>,
    usize: num_traits::AsPrimitive<Pr>,
{
    let kusize = |s: &usize| *s as i64;
    if m.support_size() != n {
        return Err(Fail::new(format!("{prop}/support_size"), format!("{what}: support_size() = {} for {} entries", m.support_size(), n)));
    }
    let t = table_from_encoder::<_, P>(m, 0..n, kusize, prop, what)?;
    check_tiling(&t, prop, what)?;
    let qs = quantiles(&t, src, exhaustive_up_to, 32);
    check_decoder::<_, P>(m, &t, &qs, kusize, prop, what)?;
    check_outside::<_, P>(m, &[n, n + 1, usize::MAX], kusize, prop, what)?;
    if n >= 3 {
        ctx.nontrivial();
    }
    if ctx.param == 5 {
        comparing(true);
        tables_equal(&t, &table_from_iter::<_, P>(m, kusize), "encoder view", "symbol_table")?;
        let v = m.as_view();
        tables_equal(&t, &table_from_encoder::<_, P>(&v, 0..n, kusize, "C05", "as_view")?, "encoder view", "as_view")?;
        check_decoder::<_, P>(&v, &t, &qs, kusize, "C05", "as_view decoder")?;
        tables_equal(&t, &table_from_encoder::<_, P>(&m, 0..n, kusize, "C05", "&model")?, "encoder view", "reference to model")?;
        let ge = m.to_generic_encoder_model();
        tables_equal(&t, &table_from_encoder::<_, P>(&ge, 0..n, kusize, "C05", "to_generic_encoder_model")?, "encoder view", "generic encoder model")?;
        let gd = m.to_generic_decoder_model();
        tables_equal(&t, &table_from_iter::<_, P>(&gd, kusize), "encoder view", "generic decoder model")?;
        check_decoder::<_, P>(&gd, &t, &qs, kusize, "C05", "to_generic_decoder_model")?;
        let ge2 = NonContiguousCategoricalEncoderModel::<usize, Pr, P>::from_iterable_entropy_model(m);
        tables_equal(&t, &table_from_encoder::<_, P>(&ge2, 0..n, kusize, "C05", "NonContiguousCategoricalEncoderModel::from_iterable_entropy_model")?, "encoder view", "encoder from_iterable_entropy_model")?;
        let ge3: NonContiguousCategoricalEncoderModel<usize, Pr, P> = m.into();
        tables_equal(&t, &table_from_encoder::<_, P>(&ge3, 0..n, kusize, "C05", "NonContiguousCategoricalEncoderModel::from(&model)")?, "encoder view", "encoder From<&model>")?;
        if ge2.support_size() != n || ge.support_size() != n {
            return Err(Fail::new("C05/generic_encoder_support_size", format!("{what}: support_size {} / {} for {} symbols", ge.support_size(), ge2.support_size(), n)));
        }
        let gd2 = NonContiguousCategoricalDecoderModel::<usize, Pr, Vec<(Pr, usize)>, P>::from_iterable_entropy_model(m);
        tables_equal(&t, &table_from_iter::<_, P>(&gd2, kusize), "encoder view", "decoder from_iterable_entropy_model")?;
        check_decoder::<_, P>(&gd2, &t, &qs, kusize, "C05", "NonContiguousCategoricalDecoderModel::from_iterable_entropy_model")?;
        let gd3: NonContiguousCategoricalDecoderModel<usize, Pr, Vec<(Pr, usize)>, P> = m.into();
        tables_equal(&t, &table_from_iter::<_, P>(&gd3, kusize), "encoder view", "decoder From<&model>")?;
        if gd.support_size() != n {
            return Err(Fail::new("C05/generic_decoder_support_size", format!("{what}: support_size {} for {} symbols", gd.support_size(), n)));
        }
        // conversions of the converted model (its trait methods are overridden)
        tables_equal(&t, &table_from_iter::<_, P>(&gd.to_generic_decoder_model(), kusize), "encoder view", "generic decoder of generic decoder")?;
        tables_equal(&t, &table_from_encoder::<_, P>(&gd.to_generic_encoder_model(), 0..n, kusize, "C05", "generic encoder of generic decoder")?, "encoder view", "generic encoder of generic decoder")?;
        tables_equal(&t, &table_from_iter::<_, P>(&gd.as_view(), kusize), "encoder view", "view of generic decoder")?;
        // exact after scaling
        let whole = (1u64 << P) as f64;
        for (i, (s, c, p)) in m.floating_point_symbol_table::<f64>().enumerate() {
            let r = t.rows[i];
            if (s as i64, c * whole, p * whole) != (r.0, r.1 as f64, r.2 as f64) {
                return Err(Fail::new("C05/floating_point_symbol_table_differs", format!("{what}: row {i}: ({s}, {c}, {p}) * 2^P vs {:?}", r)));
            }
        }
        ctx.label("representations_compared");
        comparing(false);
    }
    if ctx.param == 3 {
        // C03 for the generic models the library builds by conversion
        let gd = m.to_generic_decoder_model();
        let tg = table_from_iter::<_, P>(&gd, kusize);
        check_tiling(&tg, "C03", &format!("generic decoder model of {what}"))?;
        check_decoder::<_, P>(&gd, &tg, &qs, kusize, "C03", &format!("generic decoder model of {what}"))?;
        let ge = m.to_generic_encoder_model();
        let te = table_from_encoder::<_, P>(&ge, 0..n, kusize, "C03", &format!("generic encoder model of {what}"))?;
        check_tiling(&te, "C03", &format!("generic encoder model of {what}"))?;
        check_outside::<_, P>(&ge, &[n, n + 1, usize::MAX], kusize, "C03", &format!("generic encoder model of {what}"))?;
    }
    if ctx.param == 18 {
        diagnostics::<_, P>(m, &t, src, ctx, what)?;
        float_probability_view::<_, P>(m, &t, &[n, n + 1, usize::MAX], what)?;
        // a reference to a model is a model (blanket impl for `&M`): its diagnostics are the model's
        diagnostics::<&ContiguousCategoricalEntropyModel<Pr, Vec<Pr>, P>, P>(&m, &t, src, ctx, &format!("reference to {what}"))?;
        float_probability_view::<_, P>(&m.to_generic_encoder_model(), &t, &[n, usize::MAX], &format!("generic encoder model of {what}"))?;
        // the non-contiguous decoder model overrides entropy_base2 and floating_point_symbol_table; the
        // encoder model has an inherent entropy_base2
        let gd = m.to_generic_decoder_model();
        diagnostics::<_, P>(&gd, &t, src, ctx, &format!("generic decoder model of {what}"))?;
        let ge = m.to_generic_encoder_model();
        comparing(true);
        let total = t.total() as f64;
        let h: f64 = -t.rows.iter().map(|r| r.2 as f64 / total).map(|x| x * x.log2()).sum::<f64>();
        let got = ge.entropy_base2::<f64>();
        comparing(false);
        if !((got - h).abs() <= 1e-9 * h.abs().max(1.0) + 1e-12 * n as f64) {
            return Err(Fail::new("C18/entropy_base2", format!("generic encoder model of {what}: entropy_base2 = {got}, textbook {h}")));
        }
    }
    Ok(t)
}

/// C18 (model part): `EncoderModel::floating_point_probability` is the exact fixed-point probability of the
/// symbol divided by 2^P, and zero for a symbol outside the support (usize symbols `0..n`).
pub fn float_probability_view<M, const P: usize>(m: &M, t: &Table, outside: &[usize], what: &str) -> Result<(), Fail>
where
    M: EncoderModel<P, Symbol = usize>,
    M::Probability: Into<f64>,
{
    comparing(true);
    let total = t.total() as f64;
    for r in &t.rows {
        let got: f64 = m.floating_point_probability::<f64>(r.0 as usize);
        if got != r.2 as f64 / total {
            return Err(Fail::new("C18/floating_point_probability", format!("{what}: floating_point_probability({}) = {got}, exact {} / 2^{}", r.0, r.2, t.prec)));
        }
    }
    for &s in outside {
        let got: f64 = m.floating_point_probability::<f64>(s);
        if got != 0.0 {
            return Err(Fail::new("C18/floating_point_probability", format!("{what}: floating_point_probability({s}) = {got} for a symbol outside the support")));
        }
    }
    comparing(false);
    Ok(())
}

/// C18 (model part): diagnostics against textbook formulas evaluated on the exact
/// fixed-point probabilities taken from the encoder view.
pub fn diagnostics<'m, M, const P: usize>(m: &'m M, t: &Table, src: &mut Src, ctx: &mut Ctx, what: &str) -> Result<(), Fail>
where
    M: IterableEntropyModel<'m, P>,
    M::Probability: Into<f64>,
    f64: From<M::Probability>,
    M::Symbol: Clone,
{
    comparing(true);
    let total = t.total() as f64;
    let q: Vec<f64> = t.rows.iter().map(|r| r.2 as f64 / total).collect();
    let n = q.len();
    let close = |a: f64, b: f64| -> bool {
        if a.is_nan() || b.is_nan() {
            return a.is_nan() && b.is_nan();
        }
        if a.is_infinite() || b.is_infinite() {
            return a == b;
        }
        (a - b).abs() <= 1e-9 * a.abs().max(b.abs()).max(1.0) + 1e-12 * n as f64
    };
    let h: f64 = -q.iter().map(|&x| x * x.log2()).sum::<f64>();
    let got = m.entropy_base2::<f64>();
    if !close(got, h) {
        return Err(Fail::new("C18/entropy_base2", format!("{what}: entropy_base2 = {got}, textbook {h}")));
    }
    // a reference distribution p (normalised, with zeros where the definition allows them)
    let zeros = src.bool();
    let mut p: Vec<f64> = (0..n).map(|_| if zeros && src.ratio(1, 3) { 0.0 } else { 1.0 + src.below(1000) as f64 }).collect();
    if p.iter().all(|&x| x == 0.0) {
        p[0] = 1.0;
    }
    let s: f64 = p.iter().sum();
    for x in p.iter_mut() {
        *x /= s;
    }
    let xlogy = |x: f64, y: f64| if x == 0.0 { 0.0 } else { x * y.log2() };
    let ce = -p.iter().zip(&q).map(|(&pi, &qi)| xlogy(pi, qi)).sum::<f64>();
    let got = m.cross_entropy_base2::<f64>(p.iter().cloned());
    if !close(got, ce) {
        return Err(Fail::new("C18/cross_entropy_base2", format!("{what}: cross_entropy_base2 = {got}, textbook {ce} (p = {})", debug_list(&p))));
    }
    let kl = p.iter().zip(&q).map(|(&pi, &qi)| if pi == 0.0 { 0.0 } else { pi * (pi / qi).log2() }).sum::<f64>();
    let got = m.kl_divergence_base2::<f64>(p.iter().cloned());
    if !close(got, kl) {
        return Err(Fail::new("C18/kl_divergence_base2", format!("{what}: kl_divergence_base2 = {got}, textbook {kl} (p = {})", debug_list(&p))));
    }
    // reverse directions: zeros in p make the definition infinite
    let rce = -q.iter().zip(&p).map(|(&qi, &pi)| qi * pi.log2()).sum::<f64>();
    let got = m.reverse_cross_entropy_base2::<f64>(p.iter().cloned());
    if !close(got, rce) {
        return Err(Fail::new("C18/reverse_cross_entropy_base2", format!("{what}: reverse_cross_entropy_base2 = {got}, textbook {rce} (p = {})", debug_list(&p))));
    }
    let rkl = q.iter().zip(&p).map(|(&qi, &pi)| qi * (qi.log2() - pi.log2())).sum::<f64>();
    let got = m.reverse_kl_divergence_base2::<f64>(p.iter().cloned());
    if !close(got, rkl) {
        return Err(Fail::new("C18/reverse_kl_divergence_base2", format!("{what}: reverse_kl_divergence_base2 = {got}, textbook {rkl} (p = {})", debug_list(&p))));
    }
    ctx.label_if(zeros, "reference_distribution_with_zeros");
    for (i, (_s, c, pr)) in m.floating_point_symbol_table::<f64>().enumerate() {
        let r = t.rows[i];
        if c != r.1 as f64 / total || pr != r.2 as f64 / total {
            return Err(Fail::new("C18/floating_point_symbol_table", format!("{what}: row {i}: ({c}, {pr}) vs exact ({}, {})", r.1 as f64 / total, r.2 as f64 / total)));
        }
    }
    comparing(false);
    ctx.label("diagnostics_checked");
    if n >= 3 {
        ctx.nontrivial();
    }
    Ok(())
}

/// lookup models from float tables (only for probability types u8/u16)
macro_rules! lookup_family {
    (true, $Pr:ty, $P:expr, $tab32:expr, $tab64:expr, $norm32:expr, $norm64:expr, $use_f32:expr, $src:expr, $ctx:expr, $mode:expr, $prop:expr, $what:expr, $ex:expr, $n:expr, $kusize:expr, $hostile:expr) => {{
        $ctx.label("family:lookup");
        let which = $src.below(4);
        let what = format!("lookup ({}) {}", ["contiguous _fast", "contiguous _perfect", "non-contiguous _fast", "non-contiguous _perfect"][which as usize], $what);
        match which {
            0 | 1 => {
                let b = match (which, $use_f32) {
                    (0, true) => build(|| ContiguousLookupDecoderModel::<$Pr, _, _, $P>::from_floating_point_probabilities_fast(&$tab32, $norm32)),
                    (0, false) => build(|| ContiguousLookupDecoderModel::<$Pr, _, _, $P>::from_floating_point_probabilities_fast(&$tab64, $norm64)),
                    (_, true) => build(|| ContiguousLookupDecoderModel::<$Pr, _, _, $P>::from_floating_point_probabilities_perfect(&$tab32)),
                    (_, false) => build(|| ContiguousLookupDecoderModel::<$Pr, _, _, $P>::from_floating_point_probabilities_perfect(&$tab64)),
                };
                let m = built_or_return!($ctx, $mode, b, &what);
                let t = table_from_iter::<_, $P>(&m, $kusize);
                check_tiling(&t, $prop, &what)?;
                vcheck!(t.rows.len() == $n, format!("{}/lookup_support_size", $prop), "{}: lists {} symbols for {} entries", what, t.rows.len(), $n);
                let qs = quantiles(&t, $src, $ex, 32);
                check_decoder::<_, $P>(&m, &t, &qs, $kusize, $prop, &what)?;
                if $mode == 18 {
                    diagnostics::<_, $P>(&m, &t, $src, $ctx, &what)?;
                }
                if $mode == 5 {
                    comparing(true);
                    tables_equal(&t, &table_from_iter::<_, $P>(&m.as_view(), $kusize), "lookup model", "lookup as_view")?;
                    let c = m.as_contiguous_categorical();
                    tables_equal(&t, &table_from_encoder::<_, $P>(&c, 0..$n, $kusize, "C05", "as_contiguous_categorical")?, "lookup model", "as_contiguous_categorical")?;
                    check_decoder::<_, $P>(&c, &t, &qs, $kusize, "C05", "as_contiguous_categorical decoder")?;
                    comparing(false);
                }
            }
            _ => {
                let syms: Vec<i32> = (0..$n as i32).map(|i| 1000 - 7 * i).collect();
                let mut syms_in = syms.clone();
                let mut mismatch = false;
                if $hostile {
                    match $src.below(4) {
                        0 => {
                            syms_in.truncate($src.below_usize($n + 1));
                            mismatch = syms_in.len() != $n;
                        }
                        1 => {
                            syms_in.push(5);
                            mismatch = true;
                        }
                        _ => {}
                    }
                }
                let ki32 = |s: &i32| *s as i64;
                let opaque_symbols = syms_in.len() % 2 == 1 || $n % 3 == 0;
                let b = match (which, $use_f32) {
                    (2, true) => build(|| if opaque_symbols { NonContiguousLookupDecoderModel::<i32, $Pr, _, _, $P>::from_symbols_and_floating_point_probabilities_fast(syms_in.iter().cloned().filter(|_| true), &$tab32, $norm32) } else { NonContiguousLookupDecoderModel::<i32, $Pr, _, _, $P>::from_symbols_and_floating_point_probabilities_fast(syms_in.iter().cloned(), &$tab32, $norm32) }),
                    (2, false) => build(|| if opaque_symbols { NonContiguousLookupDecoderModel::<i32, $Pr, _, _, $P>::from_symbols_and_floating_point_probabilities_fast(syms_in.iter().cloned().filter(|_| true), &$tab64, $norm64) } else { NonContiguousLookupDecoderModel::<i32, $Pr, _, _, $P>::from_symbols_and_floating_point_probabilities_fast(syms_in.iter().cloned(), &$tab64, $norm64) }),
                    (_, true) => build(|| if opaque_symbols { NonContiguousLookupDecoderModel::<i32, $Pr, _, _, $P>::from_symbols_and_floating_point_probabilities_perfect(syms_in.iter().cloned().filter(|_| true), &$tab32) } else { NonContiguousLookupDecoderModel::<i32, $Pr, _, _, $P>::from_symbols_and_floating_point_probabilities_perfect(syms_in.iter().cloned(), &$tab32) }),
                    (_, false) => build(|| if opaque_symbols { NonContiguousLookupDecoderModel::<i32, $Pr, _, _, $P>::from_symbols_and_floating_point_probabilities_perfect(syms_in.iter().cloned().filter(|_| true), &$tab64) } else { NonContiguousLookupDecoderModel::<i32, $Pr, _, _, $P>::from_symbols_and_floating_point_probabilities_perfect(syms_in.iter().cloned(), &$tab64) }),
                };
                let m = built_or_return!($ctx, $mode, b, &what);
                if $hostile {
                    vcheck!(!mismatch, "C19/lookup_accepted_mismatched_counts", "{}: {} symbols for {} probabilities were accepted", what, syms_in.len(), $n);
                }
                let t = table_from_iter::<_, $P>(&m, ki32);
                check_tiling(&t, $prop, &what)?;
                let listed: Vec<i64> = t.rows.iter().map(|r| r.0).collect();
                let expect: Vec<i64> = syms_in.iter().map(|&s| s as i64).collect();
                vcheck!(listed == expect, format!("{}/lookup_symbols", $prop), "{}: lists symbols {} but {} were supplied", what, debug_list(&listed), debug_list(&expect));
                let qs = quantiles(&t, $src, $ex, 32);
                check_decoder::<_, $P>(&m, &t, &qs, ki32, $prop, &what)?;
                if $mode == 18 {
                    diagnostics::<_, $P>(&m, &t, $src, $ctx, &what)?;
                }
                if $mode == 5 {
                    comparing(true);
                    tables_equal(&t, &table_from_iter::<_, $P>(&m.as_view(), ki32), "lookup model", "lookup as_view")?;
                    let c = m.as_non_contiguous_categorical();
                    tables_equal(&t, &table_from_iter::<_, $P>(&c, ki32), "lookup model", "as_non_contiguous_categorical")?;
                    check_decoder::<_, $P>(&c, &t, &qs, ki32, "C05", "as_non_contiguous_categorical decoder")?;
                    comparing(false);
                }
            }
        }
        if $n >= 3 {
            $ctx.nontrivial();
        }
    }};
    (false, $Pr:ty, $P:expr, $tab32:expr, $tab64:expr, $norm32:expr, $norm64:expr, $use_f32:expr, $src:expr, $ctx:expr, $mode:expr, $prop:expr, $what:expr, $ex:expr, $n:expr, $kusize:expr, $hostile:expr) => {{
        // lookup tables for 24/32-bit precisions would need gigabytes: not instantiated
        let _ = (&$tab32, &$tab64, $norm32, $norm64, $use_f32, $hostile, &$what, $n);
        $ctx.label("family:lookup_not_applicable");
    }};
}

/// C05: lookup `_fast` / `_perfect` and conversions versus the searched model `t`
macro_rules! lookup_vs_searched {
    (true, $Pr:ty, $P:expr, $t:expr, $tab32:expr, $tab64:expr, $norm32:expr, $norm64:expr, $use_f32:expr, $kind:ident, $src:expr, $ex:expr, $n:expr, $kusize:expr) => {{
        let l = other_ctor(|| lookup_ctor!($kind, $Pr, $P, $tab32, $tab64, $norm32, $norm64, $use_f32));
        match l {
            Ok(l) => {
                tables_equal(&$t, &table_from_iter::<_, $P>(&l, $kusize), concat!("searched _", stringify!($kind)), concat!("lookup _", stringify!($kind)))?;
                let qs = quantiles(&$t, $src, $ex, 32);
                check_decoder::<_, $P>(&l, &$t, &qs, $kusize, "C05", concat!("lookup _", stringify!($kind)))?;
            }
            Err(()) => return Err(Fail::new("C05/lookup_rejects_what_searched_accepts", format!("{} entries", $n))),
        }
    }};
    (false, $Pr:ty, $P:expr, $t:expr, $tab32:expr, $tab64:expr, $norm32:expr, $norm64:expr, $use_f32:expr, $kind:ident, $src:expr, $ex:expr, $n:expr, $kusize:expr) => {{}};
}

/// C05: conversions of a searched contiguous model into lookup models (and back);
/// C18: diagnostics of the converted models
macro_rules! lookup_conversions {
    (true, $P:expr, $m:expr, $t:expr, $src:expr, $ctx:expr, $ex:expr, $kusize:expr, $mode:expr, $what:expr) => {{
        if $mode == 5 {
            comparing(true);
            let qs = quantiles(&$t, $src, $ex, 32);
            let n = $t.rows.len();
            let l = $m.to_lookup_decoder_model();
            tables_equal(&$t, &table_from_iter::<_, $P>(&l, $kusize), "searched model", "to_lookup_decoder_model")?;
            check_decoder::<_, $P>(&l, &$t, &qs, $kusize, "C05", "to_lookup_decoder_model")?;
            let l2: ContiguousLookupDecoderModel<_, Vec<_>, Box<[_]>, $P> = (&$m).into();
            tables_equal(&$t, &table_from_iter::<_, $P>(&l2, $kusize), "searched model", "ContiguousLookupDecoderModel::from(&model)")?;
            check_decoder::<_, $P>(&l2, &$t, &qs, $kusize, "C05", "ContiguousLookupDecoderModel::from(&model)")?;
            let g = $m.to_generic_lookup_decoder_model();
            tables_equal(&$t, &table_from_iter::<_, $P>(&g, $kusize), "searched model", "to_generic_lookup_decoder_model")?;
            check_decoder::<_, $P>(&g, &$t, &qs, $kusize, "C05", "to_generic_lookup_decoder_model")?;
            let g2 = NonContiguousLookupDecoderModel::<usize, _, _, _, $P>::from_iterable_entropy_model(&$m);
            tables_equal(&$t, &table_from_iter::<_, $P>(&g2, $kusize), "searched model", "NonContiguousLookupDecoderModel::from_iterable_entropy_model")?;
            check_decoder::<_, $P>(&g2, &$t, &qs, $kusize, "C05", "NonContiguousLookupDecoderModel::from_iterable_entropy_model")?;
            let back = l.as_contiguous_categorical();
            tables_equal(&$t, &table_from_encoder::<_, $P>(&back, 0..n, $kusize, "C05", "lookup.as_contiguous_categorical")?, "searched model", "lookup as_contiguous_categorical")?;
            let gb = g.as_non_contiguous_categorical();
            tables_equal(&$t, &table_from_iter::<_, $P>(&gb, $kusize), "searched model", "generic lookup as_non_contiguous_categorical")?;
            check_decoder::<_, $P>(&gb, &$t, &qs, $kusize, "C05", "generic lookup as_non_contiguous_categorical")?;
            // the searched non-contiguous decoder converted to its lookup form
            let nd = $m.to_generic_decoder_model();
            let ndl = nd.to_lookup_decoder_model();
            tables_equal(&$t, &table_from_iter::<_, $P>(&ndl, $kusize), "searched model", "generic decoder to_lookup_decoder_model")?;
            check_decoder::<_, $P>(&ndl, &$t, &qs, $kusize, "C05", "generic decoder to_lookup_decoder_model")?;
            let ndg = nd.to_generic_lookup_decoder_model();
            tables_equal(&$t, &table_from_iter::<_, $P>(&ndg, $kusize), "searched model", "generic decoder to_generic_lookup_decoder_model")?;
            // consuming conversions
            let owned = l2.into_contiguous_categorical();
            tables_equal(&$t, &table_from_encoder::<_, $P>(&owned, 0..n, $kusize, "C05", "lookup.into_contiguous_categorical")?, "searched model", "lookup into_contiguous_categorical")?;
            let owned = g2.into_non_contiguous_categorical();
            tables_equal(&$t, &table_from_iter::<_, $P>(&owned, $kusize), "searched model", "generic lookup into_non_contiguous_categorical")?;
            comparing(false);
            $ctx.label("lookup_conversions_compared");
        }
        if $mode == 3 {
            // C03 for the models the library builds by conversion: each must be valid on its own terms
            // (its iterated table tiles [0, 2^P) and its quantile function inverts that table)
            let l = $m.to_lookup_decoder_model();
            let tl = table_from_iter::<_, $P>(&l, $kusize);
            check_tiling(&tl, "C03", &format!("to_lookup_decoder_model of {}", $what))?;
            let qs = quantiles(&tl, $src, $ex, 32);
            check_decoder::<_, $P>(&l, &tl, &qs, $kusize, "C03", &format!("to_lookup_decoder_model of {}", $what))?;
            let g = $m.to_generic_lookup_decoder_model();
            let tg = table_from_iter::<_, $P>(&g, $kusize);
            check_tiling(&tg, "C03", &format!("to_generic_lookup_decoder_model of {}", $what))?;
            check_decoder::<_, $P>(&g, &tg, &qs, $kusize, "C03", &format!("to_generic_lookup_decoder_model of {}", $what))?;
            $ctx.label("converted_lookup_models_validated");
        }
        if $mode == 18 {
            let l = $m.to_lookup_decoder_model();
            diagnostics::<_, $P>(&l, &$t, $src, $ctx, &format!("to_lookup_decoder_model of {}", $what))?;
            let g = $m.to_generic_lookup_decoder_model();
            diagnostics::<_, $P>(&g, &$t, $src, $ctx, &format!("to_generic_lookup_decoder_model of {}", $what))?;
        }
    }};
    (false, $P:expr, $m:expr, $t:expr, $src:expr, $ctx:expr, $ex:expr, $kusize:expr, $mode:expr, $what:expr) => {{}};
}

macro_rules! lookup_ctor {
    (fast, $Pr:ty, $P:expr, $tab32:expr, $tab64:expr, $norm32:expr, $norm64:expr, $use_f32:expr) => {
        if $use_f32 {
            ContiguousLookupDecoderModel::<$Pr, _, _, $P>::from_floating_point_probabilities_fast(&$tab32, $norm32)
        } else {
            ContiguousLookupDecoderModel::<$Pr, _, _, $P>::from_floating_point_probabilities_fast(&$tab64, $norm64)
        }
    };
    (perfect, $Pr:ty, $P:expr, $tab32:expr, $tab64:expr, $norm32:expr, $norm64:expr, $use_f32:expr) => {
        if $use_f32 {
            ContiguousLookupDecoderModel::<$Pr, _, _, $P>::from_floating_point_probabilities_perfect(&$tab32)
        } else {
            ContiguousLookupDecoderModel::<$Pr, _, _, $P>::from_floating_point_probabilities_perfect(&$tab64)
        }
    };
}

macro_rules! lookup_fixed {
    (true, $Pr:ty, $P:expr, $given:expr, $infer:expr, $passed_valid:expr, $src:expr, $ctx:expr, $mode:expr, $prop:expr, $what:expr, $ex:expr, $kusize:expr) => {{
        let b = build(|| ContiguousLookupDecoderModel::<$Pr, _, _, $P>::from_nonzero_fixed_point_probabilities($given.iter(), $infer));
        if let (Built::Rejected, true, 19) = (&b, $passed_valid, $mode) {
            return Err(Fail::new(format!("{}/valid_fixed_point_table_rejected{}", $prop, if $infer { "/infer_last_probability" } else { "" }), format!("lookup {}", $what)));
        }
        let m = built_or_return!($ctx, $mode, b, &$what);
        let t = table_from_iter::<_, $P>(&m, $kusize);
        check_tiling(&t, $prop, &format!("lookup {}", $what))?;
        let qs = quantiles(&t, $src, $ex, 32);
        check_decoder::<_, $P>(&m, &t, &qs, $kusize, $prop, &format!("lookup {}", $what))?;
        if t.rows.len() >= 3 {
            $ctx.nontrivial();
        }
    }};
    (false, $Pr:ty, $P:expr, $given:expr, $infer:expr, $passed_valid:expr, $src:expr, $ctx:expr, $mode:expr, $prop:expr, $what:expr, $ex:expr, $kusize:expr) => {{
        let _ = ($passed_valid, &$what);
    }};
}

cat_cfg!(c_u8_3, "u8/3", u8, 3, lookup = true);
cat_cfg!(c_u8_8, "u8/8", u8, 8, lookup = true);
cat_cfg!(c_u16_12, "u16/12", u16, 12, lookup = true);
cat_cfg!(c_u16_16, "u16/16", u16, 16, lookup = true);
cat_cfg!(c_u32_24, "u32/24", u32, 24, lookup = false);
cat_cfg!(c_u32_32, "u32/32", u32, 32, lookup = false);

/// In modes 5 (C05) and 18 (C18) the validity predicate and panics inside model code are
/// another property's business (C03 / C20): such cases are discarded and counted, never
/// reported under the running property.
pub fn categorical(src: &mut Src, ctx: &mut Ctx) -> CaseResult {
    let mode = ctx.param;
    let r = if mode == 5 || mode == 18 {
        comparing(false);
        match vengine::catch(|| categorical_inner(src, ctx)) {
            Ok(r) => r,
            Err(p) if p.origin == vengine::PanicOrigin::Harness => panic!("harness bug: {}", p.render()),
            Err(p) if is_comparing() => {
                // the model was built and validated; the panic happened inside a conversion, a view or an
                // accessor that the running property is about
                comparing(false);
                return Err(Fail::new(format!("C{:02}/panic_in_conversion_or_accessor/{}", mode, p.signature()), p.render()));
            }
            Err(_) => {
                ctx.discard("foreign:panic_in_model_code");
                return Ok(());
            }
        }
    } else {
        categorical_inner(src, ctx)
    };
    match r {
        Err(f) if f.sig.starts_with("FOREIGN/") => {
            ctx.discard("foreign_property_violated");
            Ok(())
        }
        other => other,
    }
}

fn categorical_inner(src: &mut Src, ctx: &mut Ctx) -> CaseResult {
    match src.below(6) {
        0 => c_u8_3(src, ctx),
        1 => c_u8_8(src, ctx),
        2 => c_u16_12(src, ctx),
        3 => c_u16_16(src, ctx),
        4 => c_u32_24(src, ctx),
        _ => c_u32_32(src, ctx),
    }
}
