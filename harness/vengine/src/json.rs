//! Minimal JSON writer (the driver is in Python; the workers only need to emit).

pub fn quote(s: &str) -> String {
    let mut out = String::with_capacity(s.len() + 2);
    out.push('"');
    for ch in s.chars() {
        match ch {
            '"' => out.push_str("\\\""),
            '\\' => out.push_str("\\\\"),
            '\n' => out.push_str("\\n"),
            '\r' => out.push_str("\\r"),
            '\t' => out.push_str("\\t"),
            c if (c as u32) < 0x20 => out.push_str(&format!("\\u{:04x}", c as u32)),
            c => out.push(c),
        }
    }
    out.push('"');
    out
}

pub fn hex(bytes: &[u8]) -> String {
    let mut s = String::with_capacity(bytes.len() * 2);
    for b in bytes {
        s.push_str(&format!("{:02x}", b));
    }
    s
}

pub fn unhex(s: &str) -> Option<Vec<u8>> {
    let s = s.trim();
    if s.len() % 2 != 0 {
        return None;
    }
    (0..s.len() / 2)
        .map(|i| u8::from_str_radix(&s[2 * i..2 * i + 2], 16).ok())
        .collect()
}

pub fn str_array(xs: &[String]) -> String {
    let v: Vec<String> = xs.iter().map(|x| quote(x)).collect();
    format!("[{}]", v.join(","))
}
