//! The C03 validity predicate and the C05 comparison, written once and generically.
//!
//! A model is reduced to a [`Table`]: the list of `(symbol key, left cumulative,
//! probability)` triples of its declared support, as `i64` / `u64` / `u64`.  Every check is
//! a statement about tables or about a view's agreement with a table.

use constriction::stream::model::{DecoderModel, EncoderModel, IterableEntropyModel};
use constriction::NonZeroBitArray;
use core::fmt::Debug;
use num_traits::AsPrimitive;
use vengine::{Fail, Src};

#[derive(Clone, Debug, PartialEq)]
pub struct Table {
    pub prec: u32,
    /// (symbol key, left cumulative, probability)
    pub rows: Vec<(i64, u64, u64)>,
}

impl Table {
    pub fn total(&self) -> u64 {
        1u64 << self.prec
    }
    pub fn brief(&self) -> String {
        let n = self.rows.len();
        if n <= 12 {
            format!("P={} {:?}", self.prec, self.rows)
        } else {
            format!("P={} {} rows, first {:?} .. last {:?}", self.prec, n, &self.rows[..4], &self.rows[n - 3..])
        }
    }
    /// row index whose interval contains `q`
    pub fn find(&self, q: u64) -> Option<usize> {
        let i = self.rows.partition_point(|r| r.1 <= q);
        if i == 0 {
            return None;
        }
        let r = self.rows[i - 1];
        if q < r.1 + r.2 {
            Some(i - 1)
        } else {
            None
        }
    }
}

/// Tiling predicate: consecutive, non-empty, non-overlapping intervals from 0 to exactly
/// 2^P, at least two symbols, no probability equal to 2^P.
pub fn check_tiling(t: &Table, prop: &str, what: &str) -> Result<(), Fail> {
    let total = t.total();
    if t.rows.len() < 2 {
        return Err(Fail::new(format!("{prop}/fewer_than_two_symbols"), format!("{what}: the model has {} symbol(s): {}", t.rows.len(), t.brief())));
    }
    let mut sum = 0u64;
    for (i, &(sym, left, prob)) in t.rows.iter().enumerate() {
        if prob == 0 {
            return Err(Fail::new(format!("{prop}/zero_probability_in_support"), format!("{what}: symbol {sym} (row {i}) has probability 0: {}", t.brief())));
        }
        if prob >= total {
            return Err(Fail::new(format!("{prop}/probability_one"), format!("{what}: symbol {sym} has probability {prob} >= 2^P: {}", t.brief())));
        }
        if left != sum {
            return Err(Fail::new(
                format!("{prop}/intervals_not_consecutive"),
                format!("{what}: symbol {sym} (row {i}) starts at {left}, but the previous interval ends at {sum}: {}", t.brief()),
            ));
        }
        sum += prob;
        if sum > total {
            return Err(Fail::new(format!("{prop}/intervals_exceed_total"), format!("{what}: cumulative {sum} > 2^P after row {i}: {}", t.brief())));
        }
    }
    if sum != total {
        return Err(Fail::new(format!("{prop}/intervals_do_not_reach_total"), format!("{what}: probabilities sum to {sum}, not 2^P = {total}: {}", t.brief())));
    }
    Ok(())
}

/// Builds the table of `support` from the *encoder view* (`left_cumulative_and_probability`).
/// A symbol of the declared support that is reported as impossible is a violation.
pub fn table_from_encoder<M, const P: usize>(
    m: &M,
    support: impl Iterator<Item = M::Symbol>,
    key: impl Fn(&M::Symbol) -> i64,
    prop: &str,
    what: &str,
) -> Result<Table, Fail>
where
    M: EncoderModel<P>,
    M::Probability: Into<u64>,
    M::Symbol: Clone,
{
    let mut rows = Vec::new();
    for s in support {
        match m.left_cumulative_and_probability(s.clone()) {
            Some((left, prob)) => rows.push((key(&s), left.into(), prob.get().into())),
            None => {
                return Err(Fail::new(
                    format!("{prop}/support_symbol_impossible"),
                    format!("{what}: symbol {} of the declared support has no probability", key(&s)),
                ))
            }
        }
    }
    Ok(Table { prec: P as u32, rows })
}

/// The table as listed by `symbol_table()`; no checks.
pub fn table_from_iter<'m, M, const P: usize>(m: &'m M, key: impl Fn(&M::Symbol) -> i64) -> Table
where
    M: IterableEntropyModel<'m, P>,
    M::Probability: Into<u64>,
{
    let rows = m.symbol_table().map(|(s, l, p)| (key(&s), l.into(), p.get().into())).collect();
    Table { prec: P as u32, rows }
}

/// Quantiles to probe: all of them for small totals, otherwise both ends of every interval
/// +-1 plus a generated handful.
pub fn quantiles(t: &Table, src: &mut Src, exhaustive_up_to: u64, extra: usize) -> Vec<u64> {
    let total = t.total();
    if total <= exhaustive_up_to {
        return (0..total).collect();
    }
    let mut v = Vec::new();
    let stride = (t.rows.len() / 64).max(1);
    for (i, r) in t.rows.iter().enumerate() {
        if i % stride == 0 || i + 2 >= t.rows.len() || i < 2 {
            for q in [r.1, r.1 + 1, r.1 + r.2 / 2, (r.1 + r.2).saturating_sub(2), r.1 + r.2 - 1] {
                if q < total && q >= r.1 {
                    v.push(q);
                }
            }
        }
    }
    for _ in 0..extra {
        v.push(src.below(total));
    }
    v.push(0);
    v.push(total - 1);
    v
}

/// `quantile_function(q)` must return exactly the row of the table whose interval contains q.
pub fn check_decoder<M, const P: usize>(
    m: &M,
    t: &Table,
    qs: &[u64],
    key: impl Fn(&M::Symbol) -> i64,
    prop: &str,
    what: &str,
) -> Result<(), Fail>
where
    M: DecoderModel<P>,
    M::Probability: Into<u64>,
    u64: AsPrimitive<M::Probability>,
{
    for &q in qs {
        let (s, l, p) = m.quantile_function(q.as_());
        let got = (key(&s), Into::<u64>::into(l), Into::<u64>::into(p.get()));
        match t.find(q) {
            Some(i) => {
                if got != t.rows[i] {
                    return Err(Fail::new(
                        format!("{prop}/quantile_function_disagrees_with_encoder"),
                        format!("{what}: quantile_function({q}) = {:?}, but the encoder view says {:?} ({})", got, t.rows[i], t.brief()),
                    ));
                }
            }
            None => {
                return Err(Fail::new(format!("{prop}/quantile_not_covered"), format!("{what}: no interval of the support contains quantile {q} ({})", t.brief())));
            }
        }
    }
    Ok(())
}

/// Symbols outside the support must have probability zero.
pub fn check_outside<M, const P: usize>(m: &M, outside: &[M::Symbol], key: impl Fn(&M::Symbol) -> i64, prop: &str, what: &str) -> Result<(), Fail>
where
    M: EncoderModel<P>,
    M::Probability: Into<u64>,
    M::Symbol: Clone,
{
    for s in outside {
        if let Some((l, p)) = m.left_cumulative_and_probability(s.clone()) {
            return Err(Fail::new(
                format!("{prop}/symbol_outside_support_has_probability"),
                format!("{what}: symbol {} lies outside the support but gets (left {}, probability {})", key(s), Into::<u64>::into(l), Into::<u64>::into(p.get())),
            ));
        }
    }
    Ok(())
}

/// C05: two representations of the same model must list identical triples.
pub fn tables_equal(a: &Table, b: &Table, a_name: &str, b_name: &str) -> Result<(), Fail> {
    if a == b {
        return Ok(());
    }
    let n = a.rows.len().min(b.rows.len());
    let first = (0..n).find(|&i| a.rows[i] != b.rows[i]);
    let detail = match first {
        Some(i) => format!("first difference at row {i}: {a_name} {:?} vs {b_name} {:?}", a.rows[i], b.rows[i]),
        None => format!("{a_name} lists {} symbols, {b_name} lists {}", a.rows.len(), b.rows.len()),
    };
    Err(Fail::new(
        format!("C05/{}_differs_from_{}", b_name.replace(' ', "_"), a_name.replace(' ', "_")),
        format!("{detail}; {a_name}: {}; {b_name}: {}", a.brief(), b.brief()),
    ))
}

pub fn debug_list<T: Debug>(v: &[T]) -> String {
    if v.len() <= 16 {
        format!("{:?}", v)
    } else {
        format!("{:?} .. ({} entries)", &v[..12], v.len())
    }
}


// ---- which phase a panic belongs to (modes 5 / 18) -------------------------------------------
thread_local! {
    static COMPARING: std::cell::Cell<bool> = const { std::cell::Cell::new(false) };
}

/// Marks the phase in which an already built and validated model is converted, viewed, iterated or
/// queried for diagnostics: a panic there belongs to C05 / C18, a panic in a constructor to C03.
pub fn comparing(on: bool) {
    COMPARING.with(|c| c.set(on));
}

pub fn is_comparing() -> bool {
    COMPARING.with(|c| c.get())
}

/// A constructor of *another* representation called inside the comparison phase.
pub fn other_ctor<T>(f: impl FnOnce() -> T) -> T {
    let was = is_comparing();
    comparing(false);
    let r = f();
    comparing(was);
    r
}
