//! C17 — word sources and sinks honour their read/write/bounds/position contracts.
//!
//! Model-based, stateful: a script of operations is applied to a real backend (behind a
//! small object-safe adapter trait) and to a reference model, and every result is compared.
//!
//! * cursor family: `Cursor` over `Vec`, `Box<[_]>`, `&[_]`, `&mut [_]`, and
//!   `Reverse<Cursor<..>>` over `Vec`, `Box<[_]>`, `&mut [_]`; the model is one *logical*
//!   cursor `(buf, pos)`; `into_reversed` (any number of times) only mirrors the physical
//!   `pos`/`buf`, so that "reversing a cursor in place is observationally a no-op for
//!   subsequent reads and writes" is checked by construction;
//! * growing stacks: `Vec`, `SmallVec<[_; 2]>` (seek truncates);
//! * iterator adapters over non-fused iterators with injected errors; callback writers.

use constriction::backends::{
    BoundedReadWords, BoundedWriteWords, Cursor, FallibleCallbackWriteWords, FallibleIteratorReadWords, InfallibleCallbackWriteWords, ReadWords, Reverse,
    WriteWords,
};
use constriction::{Pos, Queue, Seek, Stack};
use smallvec::SmallVec;
use vengine::{note, vcheck, CaseResult, Ctx, Src};

type W = u16;

/// Object-safe view of a cursor-like backend. `None` = operation not offered by this type.
trait Cur {
    fn name(&self) -> &'static str;
    fn read_s(&mut self) -> Option<Option<W>>;
    fn read_q(&mut self) -> Option<Option<W>>;
    fn write(&mut self, w: W) -> Option<bool>;
    fn extend(&mut self, ws: &[W]) -> Option<bool>;
    fn seek(&mut self, p: usize) -> bool;
    fn pos(&self) -> usize;
    fn remaining_s(&self) -> Option<usize>;
    fn remaining_q(&self) -> Option<usize>;
    fn exhausted_s(&self) -> Option<(bool, bool)>; // (is_exhausted, maybe_exhausted)
    fn exhausted_q(&self) -> Option<(bool, bool)>;
    fn space(&self) -> Option<(usize, bool, bool)>; // (space_left, is_full, maybe_full)
    fn physical(&self) -> (Vec<W>, usize);
    /// reads `n` words with the given semantics through a read-only view / clone
    fn view_reads(&self, n: usize, stack: bool, cloned: bool) -> Vec<Option<W>>;
    /// writes `ws` through a temporary mutable view (`as_mut_view`), which is then dropped; number of accepted words
    fn mut_view_writes(&mut self, _ws: &[W]) -> Option<usize> {
        None
    }
    /// how many reads succeed on a clone drained to the end / writes on a clone filled up
    fn drain_count(&self, stack: bool) -> usize;
    fn fill_count(&self) -> Option<usize>;
    /// into_reversed, if offered (needs a mutable buffer); returns the new adapter
    fn reversed<'a>(self: Box<Self>) -> Result<Box<dyn Cur + 'a>, Box<dyn Cur + 'a>>
    where
        Self: 'a;
}

macro_rules! common_reads {
    () => {
        fn read_s(&mut self) -> Option<Option<W>> {
            Some(match <Self as ReadWords<W, Stack>>::read(self) {
                Ok(x) => x,
                Err(e) => match e {},
            })
        }
        fn read_q(&mut self) -> Option<Option<W>> {
            Some(match <Self as ReadWords<W, Queue>>::read(self) {
                Ok(x) => x,
                Err(e) => match e {},
            })
        }
        fn seek(&mut self, p: usize) -> bool {
            Seek::seek(self, p).is_ok()
        }
        fn pos(&self) -> usize {
            Pos::pos(self)
        }
        fn remaining_s(&self) -> Option<usize> {
            Some(<Self as BoundedReadWords<W, Stack>>::remaining(self))
        }
        fn remaining_q(&self) -> Option<usize> {
            Some(<Self as BoundedReadWords<W, Queue>>::remaining(self))
        }
        fn exhausted_s(&self) -> Option<(bool, bool)> {
            Some((<Self as BoundedReadWords<W, Stack>>::is_exhausted(self), <Self as ReadWords<W, Stack>>::maybe_exhausted(self)))
        }
        fn exhausted_q(&self) -> Option<(bool, bool)> {
            Some((<Self as BoundedReadWords<W, Queue>>::is_exhausted(self), <Self as ReadWords<W, Queue>>::maybe_exhausted(self)))
        }
    };
}

macro_rules! writes {
    () => {
        fn write(&mut self, w: W) -> Option<bool> {
            Some(WriteWords::write(self, w).is_ok())
        }
        fn extend(&mut self, ws: &[W]) -> Option<bool> {
            Some(WriteWords::extend_from_iter(self, ws.iter().cloned()).is_ok())
        }
        fn space(&self) -> Option<(usize, bool, bool)> {
            Some((BoundedWriteWords::space_left(self), BoundedWriteWords::is_full(self), WriteWords::<W>::maybe_full(self)))
        }
    };
}
macro_rules! no_writes {
    () => {
        fn write(&mut self, _w: W) -> Option<bool> {
            None
        }
        fn extend(&mut self, _ws: &[W]) -> Option<bool> {
            None
        }
        fn space(&self) -> Option<(usize, bool, bool)> {
            None
        }
        fn fill_count(&self) -> Option<usize> {
            None
        }
    };
}

fn drain<B: ReadWords<W, S>, S: constriction::Semantics>(mut b: B, n: usize) -> Vec<Option<W>> {
    (0..n).map(|_| b.read().ok().flatten()).collect()
}
fn count_reads<B: ReadWords<W, S>, S: constriction::Semantics>(mut b: B, cap: usize) -> usize {
    let mut k = 0;
    while k <= cap {
        match b.read() {
            Ok(Some(_)) => k += 1,
            _ => break,
        }
    }
    k
}
fn count_writes<B: WriteWords<W>>(mut b: B, cap: usize) -> usize {
    let mut k = 0;
    while k <= cap && b.write(0xabcd).is_ok() {
        k += 1;
    }
    k
}

// ---- plain cursors ------------------------------------------------------------------
macro_rules! cursor_impl {
    ($T:ty, $name:literal, rw, $lt:lifetime) => {
        impl<$lt> Cur for $T {
            fn name(&self) -> &'static str { $name }
            common_reads!();
            writes!();
            fn physical(&self) -> (Vec<W>, usize) {
                let b: &[W] = self.buf().as_ref();
                (b.to_vec(), Pos::pos(self))
            }
            fn view_reads(&self, n: usize, stack: bool, cloned: bool) -> Vec<Option<W>> {
                match (cloned, stack) {
                    (false, true) => drain::<_, Stack>(self.as_view(), n),
                    (false, false) => drain::<_, Queue>(self.as_view(), n),
                    (true, true) => drain::<_, Stack>(self.cloned(), n),
                    (true, false) => drain::<_, Queue>(self.cloned(), n),
                }
            }
            fn drain_count(&self, stack: bool) -> usize {
                let cap = self.physical().0.len() + 2;
                if stack { count_reads::<_, Stack>(self.cloned(), cap) } else { count_reads::<_, Queue>(self.cloned(), cap) }
            }
            fn fill_count(&self) -> Option<usize> {
                let cap = self.physical().0.len() + 2;
                Some(count_writes(self.cloned(), cap))
            }
            fn mut_view_writes(&mut self, ws: &[W]) -> Option<usize> {
                let mut v = self.as_mut_view();
                Some(ws.iter().take_while(|&&w| WriteWords::write(&mut v, w).is_ok()).count())
            }
            fn reversed<'a>(self: Box<Self>) -> Result<Box<dyn Cur + 'a>, Box<dyn Cur + 'a>> where Self: 'a {
                Ok(Box::new((*self).into_reversed()))
            }
        }
    };
    ($T:ty, $name:literal, ro, $lt:lifetime) => {
        impl<$lt> Cur for $T {
            fn name(&self) -> &'static str { $name }
            common_reads!();
            no_writes!();
            fn physical(&self) -> (Vec<W>, usize) {
                let b: &[W] = self.buf().as_ref();
                (b.to_vec(), Pos::pos(self))
            }
            fn view_reads(&self, n: usize, stack: bool, cloned: bool) -> Vec<Option<W>> {
                match (cloned, stack) {
                    (false, true) => drain::<_, Stack>(self.as_view(), n),
                    (false, false) => drain::<_, Queue>(self.as_view(), n),
                    (true, true) => drain::<_, Stack>(self.cloned(), n),
                    (true, false) => drain::<_, Queue>(self.cloned(), n),
                }
            }
            fn drain_count(&self, stack: bool) -> usize {
                let cap = self.physical().0.len() + 2;
                if stack { count_reads::<_, Stack>(self.cloned(), cap) } else { count_reads::<_, Queue>(self.cloned(), cap) }
            }
            fn reversed<'a>(self: Box<Self>) -> Result<Box<dyn Cur + 'a>, Box<dyn Cur + 'a>> where Self: 'a {
                Err(self)
            }
        }
    };
}
cursor_impl!(Cursor<W, Vec<W>>, "Cursor<Vec>", rw, 'x);
cursor_impl!(Cursor<W, Box<[W]>>, "Cursor<Box<[_]>>", rw, 'x);
cursor_impl!(Cursor<W, &'x mut [W]>, "Cursor<&mut [_]>", rw, 'x);
cursor_impl!(Cursor<W, &'x [W]>, "Cursor<&[_]>", ro, 'x);

// ---- reversed cursors ---------------------------------------------------------------
macro_rules! rev_impl {
    ($B:ty, $name:literal, $lt:lifetime) => {
        impl<$lt> Cur for Reverse<Cursor<W, $B>> {
            fn name(&self) -> &'static str { $name }
            common_reads!();
            writes!();
            fn physical(&self) -> (Vec<W>, usize) {
                let b: &[W] = self.0.buf().as_ref();
                (b.to_vec(), Pos::pos(self))
            }
            fn view_reads(&self, n: usize, stack: bool, cloned: bool) -> Vec<Option<W>> {
                match (cloned, stack) {
                    (false, true) => drain::<_, Stack>(Reverse(self.0.as_view()), n),
                    (false, false) => drain::<_, Queue>(Reverse(self.0.as_view()), n),
                    (true, true) => drain::<_, Stack>(Reverse(self.0.cloned()), n),
                    (true, false) => drain::<_, Queue>(Reverse(self.0.cloned()), n),
                }
            }
            fn drain_count(&self, stack: bool) -> usize {
                let cap = self.physical().0.len() + 2;
                if stack { count_reads::<_, Stack>(Reverse(self.0.cloned()), cap) } else { count_reads::<_, Queue>(Reverse(self.0.cloned()), cap) }
            }
            fn fill_count(&self) -> Option<usize> {
                let cap = self.physical().0.len() + 2;
                Some(count_writes(Reverse(self.0.cloned()), cap))
            }
            fn mut_view_writes(&mut self, ws: &[W]) -> Option<usize> {
                let mut v = Reverse(self.0.as_mut_view());
                Some(ws.iter().take_while(|&&w| WriteWords::write(&mut v, w).is_ok()).count())
            }
            fn reversed<'a>(self: Box<Self>) -> Result<Box<dyn Cur + 'a>, Box<dyn Cur + 'a>> where Self: 'a {
                Ok(Box::new((*self).into_reversed()))
            }
        }
    };
}
rev_impl!(Vec<W>, "Reverse<Cursor<Vec>>", 'x);
rev_impl!(Box<[W]>, "Reverse<Cursor<Box<[_]>>>", 'x);
rev_impl!(&'x mut [W], "Reverse<Cursor<&mut [_]>>", 'x);

/// the reference: one logical cursor
struct Model {
    buf: Vec<W>,
    pos: usize,
    reversed: bool,
}
impl Model {
    fn len(&self) -> usize {
        self.buf.len()
    }
    fn read_s(&mut self) -> Option<W> {
        if self.pos == 0 {
            None
        } else {
            self.pos -= 1;
            Some(self.buf[self.pos])
        }
    }
    fn read_q(&mut self) -> Option<W> {
        if self.pos < self.buf.len() {
            self.pos += 1;
            Some(self.buf[self.pos - 1])
        } else {
            None
        }
    }
    fn write(&mut self, w: W) -> bool {
        if self.pos < self.buf.len() {
            self.buf[self.pos] = w;
            self.pos += 1;
            true
        } else {
            false
        }
    }
    fn phys_pos(&self) -> usize {
        if self.reversed { self.len() - self.pos } else { self.pos }
    }
    fn phys_buf(&self) -> Vec<W> {
        if self.reversed { self.buf.iter().rev().cloned().collect() } else { self.buf.clone() }
    }
}

fn cursor_script(src: &mut Src, ctx: &mut Ctx) -> CaseResult {
    let n = src.below_usize(9);
    let data: Vec<W> = (0..n).map(|_| src.u16()).collect();
    let mut backing = data.clone(); // for the borrowed variants
    let start_pos = src.below_usize(n + 1);
    let kind = src.below(9);
    let mut model = Model { buf: data.clone(), pos: start_pos, reversed: false };
    // "at_write_end"/"at_write_beginning" constructors when the position allows it
    let mut real: Box<dyn Cur + '_> = match kind {
        0 => Box::new(if start_pos == n { Cursor::new_at_write_end(data.clone()) } else if start_pos == 0 { Cursor::new_at_write_beginning(data.clone()) } else { Cursor::new_at_pos(data.clone(), start_pos).map_err(|_| vengine::Fail::new("C17/new_at_pos_rejected_valid", format!("pos {} len {}", start_pos, n)))? }),
        1 => Box::new(Cursor::new_at_pos(data.clone().into_boxed_slice(), start_pos).map_err(|_| vengine::Fail::new("C17/new_at_pos_rejected_valid", format!("pos {} len {}", start_pos, n)))?),
        2 => Box::new(Cursor::new_at_pos_mut(&mut backing[..], start_pos).map_err(|_| vengine::Fail::new("C17/new_at_pos_rejected_valid", format!("pos {} len {}", start_pos, n)))?),
        3 => Box::new(Cursor::new_at_pos(&backing[..], start_pos).map_err(|_| vengine::Fail::new("C17/new_at_pos_rejected_valid", format!("pos {} len {}", start_pos, n)))?),
        4 | 5 => {
            // reversed data + Reverse wrapper = the same logical cursor
            let rev: Vec<W> = data.iter().rev().cloned().collect();
            model.reversed = true;
            Box::new(Reverse(Cursor::new_at_pos(rev, n - start_pos).map_err(|_| vengine::Fail::new("C17/new_at_pos_rejected_valid", "reversed".to_string()))?))
        }
        6 => {
            let rev: Vec<W> = data.iter().rev().cloned().collect();
            model.reversed = true;
            Box::new(Reverse(Cursor::new_at_pos(rev.into_boxed_slice(), n - start_pos).map_err(|_| vengine::Fail::new("C17/new_at_pos_rejected_valid", "reversed".to_string()))?))
        }
        7 => {
            backing.reverse();
            model.reversed = true;
            Box::new(Reverse(Cursor::new_at_pos_mut(&mut backing[..], n - start_pos).map_err(|_| vengine::Fail::new("C17/new_at_pos_rejected_valid", "reversed".to_string()))?))
        }
        _ => {
            // invalid position must be refused
            let r = Cursor::<W, Vec<W>>::new_at_pos(data.clone(), n + 1 + src.below_usize(3));
            vcheck!(r.is_err(), "C17/new_at_pos_accepted_invalid", "new_at_pos beyond the buffer was accepted (len {})", n);
            let r = Cursor::<W, Vec<W>>::new_at_pos_mut(data.clone(), n + 1);
            vcheck!(r.is_err(), "C17/new_at_pos_accepted_invalid", "new_at_pos_mut beyond the buffer was accepted (len {})", n);
            Box::new(Cursor::new_at_pos(data.clone(), start_pos).map_err(|_| vengine::Fail::new("C17/new_at_pos_rejected_valid", "valid".to_string()))?)
        }
    };
    note!(ctx, "{} over {:x?} at logical pos {}", real.name(), data, start_pos);
    let max_ops = if ctx.tier == 0 { 60 } else { 400 };
    let mut ops = 0;
    let mut none_streak_s = false;
    let mut reversals = 0;
    while ops < max_ops && !src.is_empty() {
        ops += 1;
        let what = real.name();
        match src.weighted(&[16, 16, 16, 4, 8, 4, 10, 6, 6, 8]) {
            0 => {
                if let Some(r) = real.read_s() {
                    let e = model.read_s();
                    note!(ctx, "read<Stack> -> {:x?}", r);
                    vcheck!(r == e, "C17/cursor_read_stack", "{}: stack read returned {:x?}, model {:x?} (after {} reversals)", what, r, e, reversals);
                    if e.is_none() {
                        none_streak_s = true;
                    }
                }
            }
            1 => {
                if let Some(r) = real.read_q() {
                    let e = model.read_q();
                    note!(ctx, "read<Queue> -> {:x?}", r);
                    vcheck!(r == e, "C17/cursor_read_queue", "{}: queue read returned {:x?}, model {:x?} (after {} reversals)", what, r, e, reversals);
                }
            }
            2 => {
                let w = src.u16();
                if let Some(ok) = real.write(w) {
                    let e = model.write(w);
                    note!(ctx, "write({:x}) -> {}", w, ok);
                    vcheck!(ok == e, "C17/cursor_write", "{}: write succeeded={}, model {} (logical pos {}, len {})", what, ok, e, model.pos, model.len());
                }
            }
            3 => {
                let k = src.below_usize(4);
                let ws: Vec<W> = (0..k).map(|_| src.u16()).collect();
                if let Some(ok) = real.extend(&ws) {
                    let mut e = true;
                    for &w in &ws {
                        if !model.write(w) {
                            e = false;
                            break;
                        }
                    }
                    vcheck!(ok == e, "C17/cursor_extend", "{}: extend_from_iter of {} words succeeded={}, model {}", what, k, ok, e);
                }
            }
            4 => {
                // seek: valid, identity or out of range
                let sel = src.below(4);
                let target_logical = match sel {
                    0 => model.pos,
                    _ => src.below_usize(model.len() + 1),
                };
                if sel == 3 {
                    let bad = model.len() + 1 + src.below_usize(3);
                    let before = real.physical();
                    let ok = real.seek(bad);
                    vcheck!(!ok, "C17/seek_out_of_range_accepted", "{}: seek({}) accepted, buffer has {} words", what, bad, model.len());
                    vcheck!(real.physical() == before, "C17/failed_seek_changed_state", "{}: refused seek changed the cursor", what);
                    ctx.label("seek_out_of_range");
                } else {
                    let phys = if model.reversed { model.len() - target_logical } else { target_logical };
                    if sel == 0 {
                        let p = real.pos();
                        vcheck!(p == phys, "C17/pos", "{}: pos() = {}, expected {}", what, p, phys);
                        ctx.label("seek_to_pos_identity");
                    }
                    let ok = real.seek(phys);
                    vcheck!(ok, "C17/seek_in_range_refused", "{}: seek({}) refused, buffer has {} words", what, phys, model.len());
                    model.pos = target_logical;
                    note!(ctx, "seek to logical {}", target_logical);
                }
            }
            5 => {
                let p = real.pos();
                vcheck!(p == model.phys_pos(), "C17/pos", "{}: pos() = {}, expected {} (logical {}, reversed {})", what, p, model.phys_pos(), model.pos, model.reversed);
                let (b, _) = real.physical();
                vcheck!(b == model.phys_buf(), "C17/buf_contents", "{}: buf() = {:x?}, expected {:x?}", what, b, model.phys_buf());
            }
            6 => {
                // bounds
                if let Some(r) = real.remaining_s() {
                    vcheck!(r == model.pos, "C17/remaining_stack", "{}: remaining<Stack>() = {}, {} stack reads will succeed", what, r, model.pos);
                    let d = real.drain_count(true);
                    vcheck!(d == r, "C17/remaining_stack_vs_actual_reads", "{}: remaining<Stack>() = {} but {} reads succeed on a clone", what, r, d);
                }
                if let Some(r) = real.remaining_q() {
                    let e = model.len() - model.pos;
                    vcheck!(r == e, "C17/remaining_queue", "{}: remaining<Queue>() = {}, {} queue reads will succeed", what, r, e);
                    let d = real.drain_count(false);
                    vcheck!(d == r, "C17/remaining_queue_vs_actual_reads", "{}: remaining<Queue>() = {} but {} reads succeed on a clone", what, r, d);
                }
                if let Some((is, maybe)) = real.exhausted_s() {
                    vcheck!(is == (model.pos == 0), "C17/is_exhausted_stack", "{}: is_exhausted<Stack> = {} at logical pos {}", what, is, model.pos);
                    vcheck!(maybe || model.pos > 0, "C17/maybe_exhausted_false_but_no_data", "{}: maybe_exhausted<Stack> = false but the next read returns None", what);
                    vcheck!(maybe || !is, "C17/maybe_exhausted_contradicts_is_exhausted", "{}", what);
                }
                if let Some((is, maybe)) = real.exhausted_q() {
                    vcheck!(is == (model.pos == model.len()), "C17/is_exhausted_queue", "{}: is_exhausted<Queue> = {} at logical pos {} of {}", what, is, model.pos, model.len());
                    vcheck!(maybe || model.pos < model.len(), "C17/maybe_exhausted_false_but_no_data", "{}: maybe_exhausted<Queue> = false but the next read returns None", what);
                }
                if let Some((space, full, maybe_full)) = real.space() {
                    let e = model.len() - model.pos;
                    vcheck!(space == e, "C17/space_left", "{}: space_left() = {} but {} writes will succeed (logical pos {} of {})", what, space, e, model.pos, model.len());
                    vcheck!(full == (e == 0), "C17/is_full", "{}: is_full() = {} with {} free words", what, full, e);
                    vcheck!(maybe_full || !full, "C17/maybe_full_contradicts_is_full", "{}", what);
                    if let Some(f) = real.fill_count() {
                        vcheck!(f == space, "C17/space_left_vs_actual_writes", "{}: space_left() = {} but {} writes succeed on a clone", what, space, f);
                    }
                }
                ctx.label("bounds_checked");
            }
            7 => {
                // into_reversed: observationally a no-op
                match real.reversed() {
                    Ok(r) => {
                        real = r;
                        model.reversed = !model.reversed;
                        reversals += 1;
                        note!(ctx, "into_reversed -> {}", real.name());
                        ctx.label("into_reversed");
                        let (b, p) = real.physical();
                        vcheck!(b == model.phys_buf() && p == model.phys_pos(), "C17/into_reversed_mirroring", "{}: after into_reversed buf {:x?} pos {}, expected {:x?} pos {}", real.name(), b, p, model.phys_buf(), model.phys_pos());
                    }
                    Err(r) => real = r,
                }
            }
            8 => {
                // read-only views and clones see the same data and leave the original alone
                let stack = src.bool();
                let cloned = src.bool();
                let k = src.range_usize(1, 4);
                let got = real.view_reads(k, stack, cloned);
                let mut m2 = Model { buf: model.buf.clone(), pos: model.pos, reversed: model.reversed };
                let exp: Vec<Option<W>> = (0..k).map(|_| if stack { m2.read_s() } else { m2.read_q() }).collect();
                vcheck!(got == exp, "C17/view_reads", "{}: {} reads<{}> through {} returned {:x?}, expected {:x?}", what, k, if stack { "Stack" } else { "Queue" }, if cloned { "cloned()" } else { "as_view()" }, got, exp);
                let (_, p) = real.physical();
                vcheck!(p == model.phys_pos(), "C17/view_moved_original", "{}: reading through a view moved the original cursor", what);
                ctx.label("view_or_clone");
            }
            _ => {
                // consecutive stack reads at the end stay None
                if none_streak_s && model.pos == 0 {
                    if let Some(r) = real.read_s() {
                        vcheck!(r.is_none(), "C17/read_after_end_returned_data", "{}: read after end-of-data returned {:x?}", what, r);
                    }
                    ctx.label("read_after_end");
                } else {
                    // writes through a temporary mutable view land in the owner's buffer at the owner's position and
                    // leave the owner's position alone
                    let ws: Vec<W> = (0..src.range_usize(1, 3)).map(|_| src.u16()).collect();
                    if let Some(k) = real.mut_view_writes(&ws) {
                        let free = model.len() - model.pos;
                        let exp = ws.len().min(free);
                        vcheck!(k == exp, "C17/mut_view_writes", "{}: {} of {} writes through as_mut_view() succeeded with {} words free", what, k, ws.len(), free);
                        for (i, &w) in ws.iter().take(exp).enumerate() {
                            model.buf[model.pos + i] = w;
                        }
                        let (b, p) = real.physical();
                        vcheck!(b == model.phys_buf() && p == model.phys_pos(), "C17/mut_view_writes", "{}: after writing {:x?} through as_mut_view(): buf {:x?} pos {}, expected {:x?} pos {}", what, ws, b, p, model.phys_buf(), model.phys_pos());
                        ctx.label("mut_view_writes");
                    }
                }
            }
        }
    }
    if ops >= 5 {
        ctx.nontrivial();
    }
    Ok(())
}

/// growing stacks: Vec and SmallVec
macro_rules! stack_backend_script {
    ($name:ident, $T:ty, $label:literal) => {
        fn $name(src: &mut Src, ctx: &mut Ctx) -> CaseResult {
            let mut real: $T = Default::default();
            let mut model: Vec<W> = Vec::new();
            ctx.label($label);
            let max_ops = if ctx.tier == 0 { 60 } else { 400 };
            let mut ops = 0;
            while ops < max_ops && !src.is_empty() {
                ops += 1;
                match src.weighted(&[30, 25, 6, 8, 10]) {
                    0 => {
                        let w = src.u16();
                        let r = WriteWords::write(&mut real, w);
                        vcheck!(r.is_ok(), "C17/growing_write_failed", "{}: write failed", $label);
                        model.push(w);
                    }
                    1 => {
                        let r = ReadWords::<W, Stack>::read(&mut real).ok().flatten();
                        let e = model.pop();
                        vcheck!(r == e, "C17/growing_read", "{}: read {:x?}, model {:x?}", $label, r, e);
                    }
                    2 => {
                        let k = src.below_usize(5);
                        let ws: Vec<W> = (0..k).map(|_| src.u16()).collect();
                        let r = WriteWords::extend_from_iter(&mut real, ws.iter().cloned());
                        vcheck!(r.is_ok(), "C17/growing_write_failed", "{}: extend failed", $label);
                        model.extend_from_slice(&ws);
                    }
                    3 => {
                        let p = src.below_usize(model.len() + 3);
                        let r = Seek::seek(&mut real, p);
                        if p <= model.len() {
                            vcheck!(r.is_ok(), "C17/seek_in_range_refused", "{}: seek({}) refused with {} words", $label, p, model.len());
                            model.truncate(p);
                            ctx.label("seek_truncates");
                        } else {
                            vcheck!(r.is_err(), "C17/seek_out_of_range_accepted", "{}: seek({}) accepted with {} words", $label, p, model.len());
                            ctx.label("seek_out_of_range");
                        }
                    }
                    _ => {
                        vcheck!(Pos::pos(&real) == model.len(), "C17/pos", "{}: pos {} len {}", $label, Pos::pos(&real), model.len());
                        let rem = BoundedReadWords::<W, Stack>::remaining(&real);
                        vcheck!(rem == model.len(), "C17/remaining_stack", "{}: remaining {} len {}", $label, rem, model.len());
                        let ex = BoundedReadWords::<W, Stack>::is_exhausted(&real);
                        let mex = ReadWords::<W, Stack>::maybe_exhausted(&real);
                        vcheck!(ex == model.is_empty(), "C17/is_exhausted_stack", "{}: is_exhausted {} len {}", $label, ex, model.len());
                        vcheck!(mex || !model.is_empty(), "C17/maybe_exhausted_false_but_no_data", "{}", $label);
                        vcheck!(real[..] == model[..], "C17/buf_contents", "{}: contents differ", $label);
                    }
                }
            }
            if ops >= 5 {
                ctx.nontrivial();
            }
            Ok(())
        }
    };
}
stack_backend_script!(vec_script, Vec<W>, "Vec");
stack_backend_script!(smallvec_script, SmallVec<[W; 2]>, "SmallVec<[_;2]>");

/// A deliberately non-fused iterator: `None` entries of the script end the iteration
/// *temporarily*.
struct Script {
    items: Vec<Option<Result<W, u8>>>,
    at: usize,
}
impl Iterator for Script {
    type Item = Result<W, u8>;
    fn next(&mut self) -> Option<Self::Item> {
        let it = self.items.get(self.at).cloned().flatten();
        if self.at < self.items.len() {
            self.at += 1;
        }
        it
    }
}

fn adapters_script(src: &mut Src, ctx: &mut Ctx) -> CaseResult {
    ctx.label("iterator_and_callback_adapters");
    let n = src.below_usize(12);
    let items: Vec<Option<Result<W, u8>>> = (0..n)
        .map(|_| match src.below(8) {
            0 => None,
            1 => Some(Err(src.u8())),
            _ => Some(Ok(src.u16())),
        })
        .collect();
    note!(ctx, "iterator script {:?}", items);
    let stack_sem = src.bool();
    let mut real = FallibleIteratorReadWords::new(Script { items: items.clone(), at: 0 });
    let mut ended = false;
    for (i, it) in items.iter().chain(core::iter::repeat(&None).take(3)).enumerate() {
        let me = if stack_sem { ReadWords::<W, Stack>::maybe_exhausted(&real) } else { ReadWords::<W, Queue>::maybe_exhausted(&real) };
        let r: Result<Option<W>, u8> = if stack_sem { ReadWords::<W, Stack>::read(&mut real) } else { ReadWords::<W, Queue>::read(&mut real) };
        // "If maybe_exhausted() returns false then the next call to read must return either Ok(Some(_)) or Err(_)"
        vcheck!(me || r != Ok(None), "C17/maybe_exhausted_false_but_no_data", "iterator adapter: maybe_exhausted() was false before read {}, which returned Ok(None)", i);
        let e: Result<Option<W>, u8> = if ended {
            Ok(None)
        } else {
            match it {
                None => {
                    ended = true;
                    Ok(None)
                }
                Some(Ok(w)) => Ok(Some(*w)),
                Some(Err(x)) => Err(*x),
            }
        };
        vcheck!(r == e, "C17/iterator_adapter_read", "read {} returned {:?}, expected {:?} (end of data must be sticky)", i, r, e);
    }
    ctx.label_if(items.iter().any(|x| x.is_none()) && items.last().map(|x| x.is_some()).unwrap_or(false), "non_fused_iterator_resumes");
    // exact-size iterators report what is left
    let ws: Vec<W> = (0..src.below_usize(6)).map(|_| src.u16()).collect();
    let mut real = FallibleIteratorReadWords::new(ws.clone().into_iter().map(Ok::<W, u8>));
    for k in 0..=ws.len() {
        let rem = BoundedReadWords::<W, Queue>::remaining(&real);
        vcheck!(rem == ws.len() - k, "C17/iterator_adapter_remaining", "remaining() = {} with {} items left", rem, ws.len() - k);
        let r = ReadWords::<W, Queue>::read(&mut real);
        vcheck!(r == Ok(ws.get(k).cloned()), "C17/iterator_adapter_read", "read {} -> {:?}", k, r);
    }
    // callback writers deliver the words in order and pass errors through
    let fail_at = src.below_usize(8);
    let mut sink: Vec<W> = Vec::new();
    {
        let mut cb = FallibleCallbackWriteWords::new(|w: W| {
            if sink.len() == fail_at {
                sink.push(0xdead);
                Err(7u8)
            } else {
                sink.push(w);
                Ok(())
            }
        });
        for i in 0..6u16 {
            let r = WriteWords::write(&mut cb, i);
            let e = if i as usize == fail_at { Err(7u8) } else { Ok(()) };
            vcheck!(r == e, "C17/callback_writer", "write {} returned {:?}, expected {:?}", i, r, e);
        }
    }
    let exp: Vec<W> = (0..6u16).map(|i| if i as usize == fail_at { 0xdead } else { i }).collect();
    vcheck!(sink == exp, "C17/callback_writer", "callback saw {:x?}, expected {:x?}", sink, exp);
    // `extend_from_iter`: "Writes a sequence of Words to the data sink, short-circuiting on error" - nothing is written after
    // the refused word and the iterator is not drained beyond it
    let mut sink3: Vec<W> = Vec::new();
    {
        let mut cb = FallibleCallbackWriteWords::new(|w: W| {
            if sink3.len() == fail_at {
                sink3.push(0xdead);
                Err(7u8)
            } else {
                sink3.push(w);
                Ok(())
            }
        });
        let mut it = 0..6u16;
        let r = WriteWords::extend_from_iter(&mut cb, it.by_ref());
        let e = if fail_at < 6 { Err(7u8) } else { Ok(()) };
        vcheck!(r == e, "C17/extend_from_iter_short_circuit", "extend_from_iter over 6 words with the sink failing at word {} returned {:?}, expected {:?}", fail_at, r, e);
        let left: Vec<u16> = it.collect();
        let exp_left: Vec<u16> = ((fail_at as u16 + 1).min(6)..6).collect();
        vcheck!(left == exp_left, "C17/extend_from_iter_short_circuit", "sink failing at word {}: the iterator still holds {:?}, expected {:?}", fail_at, left, exp_left);
    }
    let exp3: Vec<W> = (0..6u16).take(fail_at + 1).map(|i| if i as usize == fail_at { 0xdead } else { i }).collect();
    vcheck!(sink3 == exp3, "C17/extend_from_iter_short_circuit", "sink failing at word {}: the callback saw {:x?}, expected {:x?}", fail_at, sink3, exp3);
    let mut sink2: Vec<W> = Vec::new();
    {
        let mut cb = InfallibleCallbackWriteWords::new(|w: W| sink2.push(w));
        let r = WriteWords::extend_from_iter(&mut cb, ws.iter().cloned());
        vcheck!(r.is_ok(), "C17/callback_writer", "infallible writer failed");
    }
    vcheck!(sink2 == ws, "C17/callback_writer", "infallible callback saw {:x?}, expected {:x?}", sink2, ws);
    if n >= 2 {
        ctx.nontrivial();
    }
    Ok(())
}

pub fn c17_backends(src: &mut Src, ctx: &mut Ctx) -> CaseResult {
    match src.weighted(&[70, 10, 10, 10]) {
        0 => cursor_script(src, ctx),
        1 => vec_script(src, ctx),
        2 => smallvec_script(src, ctx),
        _ => adapters_script(src, ctx),
    }
}
