//! C10 — decoding arbitrary or corrupted data is total and stays inside the model.
//!
//! Generator: 1..3 valid models from the zoo (harness tables, uniform, contiguous _fast /
//! _perfect / fixed-point, lazy, non-contiguous, lookup decoders, leakily quantised
//! distributions with arbitrary inverse hints), used round-robin; word data from {random,
//! all-zero, all-ones, single bits, a *valid* stream of symbols from these models that is
//! truncated, extended or has flipped bits}; a decoder from {ANS over Vec (raw binary or
//! compressed), Cursor, reversed Cursor, iterator backend with injected read errors; range
//! decoder over Vec, slice, iterator backend with injected errors; chain coder from binary
//! or compressed data}; 0..200 decodes.
//!
//! Oracle: no panic of any class, termination (per-case watchdog), every returned symbol
//! belongs to the support of the model it was decoded with; the only errors are the range
//! decoder's `InvalidData`, the chain coder's `OutOfCompressedData`, and injected backend
//! errors; after an error the decoder stays usable; a harness table is never handed a
//! quantile >= 2^PRECISION.

use crate::zoo;
use constriction::backends::{Cursor, FallibleIteratorReadWords};
use constriction::stream::chain::{ChainCoder, DecoderFrontendError as ChainDecErr};
use constriction::stream::queue::{DecoderFrontendError as RangeDecErr, RangeDecoder, RangeEncoder};
use constriction::stream::stack::AnsCoder;
use constriction::stream::{Decode, Encode};
use constriction::{CoderError, UnwrapInfallible};
use hcommon::{gen_words, hexwords, out_of_range_quantiles};
use vengine::{note, vcheck, CaseResult, Ctx, Src};

#[derive(Debug)]
enum Allowed {
    Never,
    RangeInvalidData,
    ChainOutOfData,
}

macro_rules! decode_loop {
    ($coder:expr, $models:expr, $n:expr, $ctx:expr, $what:expr, $allowed:expr, $injected:expr) => {{
        let mut decoded = 0usize;
        for i in 0..$n {
            let m = &$models[i % $models.len()];
            let before = out_of_range_quantiles();
            let r = $coder.decode_symbol(m);
            vcheck!(
                out_of_range_quantiles() == before,
                "C10/decoder_passed_quantile_outside_range",
                "{}: decode {} handed the model a quantile >= 2^PRECISION ({})",
                $what,
                i,
                m.name
            );
            match r {
                Ok(s) => {
                    decoded += 1;
                    vcheck!((m.member)(s), "C10/decoded_symbol_outside_support", "{}: decode {} returned {} which is not in the support of {}", $what, i, s, m.name);
                }
                Err(e) => {
                    let txt = format!("{:?}", e);
                    let ok = match $allowed {
                        Allowed::Never => false,
                        Allowed::RangeInvalidData => txt == "Frontend(InvalidData)",
                        Allowed::ChainOutOfData => txt == "Frontend(OutOfCompressedData)",
                    } || ($injected && txt.starts_with("Backend("));
                    vcheck!(ok, "C10/undocumented_decoder_error", "{}: decode {} failed with {} ({})", $what, i, txt, m.name);
                    $ctx.label("documented_error_returned");
                }
            }
        }
        decoded
    }};
}

macro_rules! c10_cfg {
    ($name:ident, $label:literal, $zoo:ident, $W:ty, $S:ty) => {
        pub fn $name(src: &mut Src, ctx: &mut Ctx) -> CaseResult {
            use zoo::$zoo::{gen, Model, P};
            ctx.label(concat!("cfg:", $label));
            note!(ctx, "cfg {}", $label);
            let wbits = <$W>::BITS;
            // choices about the decoder and the data are drawn first (models consume many bytes)
            let kind = src.below(10);
            let n_dec = match src.below(3) {
                0 => src.below_usize(8),
                _ => src.below_usize(if ctx.tier == 0 { 200 } else { 2000 }),
            };
            let data_kind = src.below(4);
            let mutation = src.below(4);
            let random_words: Vec<$W> = gen_words(src, wbits, if ctx.tier == 0 { 24 } else { 200 }).into_iter().map(|x| x as $W).collect();
            let n_models = 1 + src.below_usize(3);
            let mut models: Vec<Model> = Vec::new();
            for _ in 0..n_models {
                match gen(src, false, true) {
                    Some(m) => {
                        note!(ctx, "model: {}", m.name);
                        models.push(m);
                    }
                    None => ctx.label("rejected_valid"),
                }
            }
            if models.is_empty() {
                return Ok(());
            }
            // ---- data --------------------------------------------------------------------
            let mut data: Vec<$W> = if data_kind == 0 && models.iter().all(|m| m.enc.is_some()) {
                // a valid stream, then corrupted
                ctx.label("data:mutated_valid_stream");
                let k = src.below_usize(40);
                let syms: Vec<(usize, i64)> = (0..k)
                    .map(|i| {
                        let mi = i % models.len();
                        let sup = &models[mi].support;
                        (mi, sup[src.below_usize(sup.len())])
                    })
                    .collect();
                let mut v: Vec<$W> = if kind >= 5 && kind <= 7 {
                    let mut e = RangeEncoder::<$W, $S>::new();
                    for (mi, s) in &syms {
                        let _ = e.encode_symbol(*s, &models[*mi]);
                    }
                    e.into_compressed().unwrap_infallible()
                } else {
                    let mut e = AnsCoder::<$W, $S>::new();
                    for (mi, s) in syms.iter().rev() {
                        let _ = e.encode_symbol(*s, &models[*mi]);
                    }
                    e.into_compressed().unwrap_infallible()
                };
                match mutation {
                    0 => {
                        let keep = src.below_usize(v.len() + 1);
                        v.truncate(keep);
                    }
                    1 => {
                        for _ in 0..src.below_usize(4) {
                            v.push(src.wordish(wbits) as $W);
                        }
                    }
                    2 => {
                        for _ in 0..1 + src.below_usize(3) {
                            if !v.is_empty() {
                                let i = src.below_usize(v.len());
                                v[i] ^= (1 as $W) << src.below(wbits as u64);
                            }
                        }
                    }
                    _ => {}
                }
                v
            } else {
                random_words.clone()
            };
            note!(ctx, "decoder kind {} over {} ({} decodes)", kind, hexwords(&data), n_dec);
            let inject_at = src.below_usize(data.len() + 2);
            let mut injected = false;
            let decoded = match kind {
                0 => {
                    ctx.label("dec:ans_from_binary");
                    let mut c = AnsCoder::<$W, $S>::from_binary(data.clone()).unwrap_infallible();
                    decode_loop!(c, models, n_dec, ctx, "ANS from_binary(Vec)", Allowed::Never, false)
                }
                1 => {
                    ctx.label("dec:ans_from_compressed");
                    if let Some(l) = data.last_mut() {
                        if *l == 0 {
                            *l = 1;
                        }
                    }
                    match AnsCoder::<$W, $S>::from_compressed(data.clone()) {
                        Ok(mut c) => decode_loop!(c, models, n_dec, ctx, "ANS from_compressed(Vec)", Allowed::Never, false),
                        Err(_) => vengine::vfail!("C10/from_compressed_rejected_nonzero_last_word", "{}", hexwords(&data)),
                    }
                }
                2 => {
                    ctx.label("dec:ans_cursor_slice");
                    let mut c = AnsCoder::<$W, $S, _>::from_binary_slice(&data[..]);
                    decode_loop!(c, models, n_dec, ctx, "ANS from_binary_slice", Allowed::Never, false)
                }
                3 => {
                    ctx.label("dec:ans_reversed_cursor");
                    let mut c = AnsCoder::<$W, $S, _>::from_reversed_binary(data.clone());
                    decode_loop!(c, models, n_dec, ctx, "ANS from_reversed_binary", Allowed::Never, false)
                }
                4 => {
                    ctx.label("dec:ans_iterator_with_injected_errors");
                    injected = true;
                    let it = data.iter().enumerate().map(move |(i, w)| if i == inject_at { Err(0xEEu8) } else { Ok(*w) });
                    match AnsCoder::<$W, $S, _>::from_reversed_binary_iter(it) {
                        Ok(mut c) => decode_loop!(c, models, n_dec, ctx, "ANS over iterator backend", Allowed::Never, true),
                        Err(e) => {
                            vcheck!(e == 0xEE, "C10/undocumented_decoder_error", "constructor failed with {:?}", e);
                            0
                        }
                    }
                }
                5 => {
                    ctx.label("dec:range_vec");
                    let mut c = RangeDecoder::<$W, $S, _>::from_compressed(data.clone()).unwrap_infallible();
                    decode_loop!(c, models, n_dec, ctx, "RangeDecoder over Vec", Allowed::RangeInvalidData, false)
                }
                6 => {
                    ctx.label("dec:range_slice");
                    let mut c = RangeDecoder::<$W, $S, _>::from_compressed(&data[..]).unwrap_infallible();
                    decode_loop!(c, models, n_dec, ctx, "RangeDecoder over slice", Allowed::RangeInvalidData, false)
                }
                7 => {
                    ctx.label("dec:range_iterator_with_injected_errors");
                    injected = true;
                    let it = data.iter().enumerate().map(move |(i, w)| if i == inject_at { Err(0xEEu8) } else { Ok(*w) });
                    match RangeDecoder::<$W, $S, _>::with_backend(FallibleIteratorReadWords::new(it)) {
                        Ok(mut c) => decode_loop!(c, models, n_dec, ctx, "RangeDecoder over iterator backend", Allowed::RangeInvalidData, true),
                        Err(e) => {
                            vcheck!(e == 0xEE, "C10/undocumented_decoder_error", "constructor failed with {:?}", e);
                            0
                        }
                    }
                }
                8 => {
                    ctx.label("dec:chain_from_binary");
                    match ChainCoder::<$W, $S, Vec<$W>, Vec<$W>, P>::from_binary(data.clone()) {
                        Ok(mut c) => decode_loop!(c, models, n_dec, ctx, "ChainCoder::from_binary", Allowed::ChainOutOfData, false),
                        Err(CoderError::Frontend(_)) => {
                            ctx.label("constructor_out_of_data");
                            0
                        }
                        Err(CoderError::Backend(e)) => match e {},
                    }
                }
                _ => {
                    ctx.label("dec:chain_from_compressed");
                    match ChainCoder::<$W, $S, Vec<$W>, Vec<$W>, P>::from_compressed(data.clone()) {
                        Ok(mut c) => decode_loop!(c, models, n_dec, ctx, "ChainCoder::from_compressed", Allowed::ChainOutOfData, false),
                        Err(CoderError::Frontend(_)) => {
                            ctx.label("constructor_rejected_data");
                            0
                        }
                        Err(CoderError::Backend(e)) => match e {},
                    }
                }
            };
            let _ = (injected, Cursor::<$W, Vec<$W>>::new_at_write_beginning(Vec::new()));
            let _: Option<(RangeDecErr, ChainDecErr)> = None;
            if decoded >= 3 && data.len() >= 2 {
                ctx.nontrivial();
            }
            Ok(())
        }
    };
}

c10_cfg!(c10_u8_8_w16, "p8/u16/u32", z_u8_8, u16, u32);
c10_cfg!(c10_u8_8_w8, "p8/u8/u16", z_u8_8, u8, u16);
c10_cfg!(c10_u16_12, "p12/u16/u32", z_u16_12, u16, u32);
c10_cfg!(c10_u16_16, "p16/u16/u32", z_u16_16, u16, u32);
c10_cfg!(c10_u16_12_w32, "p12/u32/u64", z_u16_12, u32, u64);
c10_cfg!(c10_u32_24, "p24/u32/u64", z_u32_24, u32, u64);
c10_cfg!(c10_u32_32, "p32/u32/u64", z_u32_32, u32, u64);

pub fn c10_decode(src: &mut Src, ctx: &mut Ctx) -> CaseResult {
    match src.below(7) {
        0 => c10_u8_8_w16(src, ctx),
        1 => c10_u8_8_w8(src, ctx),
        2 => c10_u16_12(src, ctx),
        3 => c10_u16_16(src, ctx),
        4 => c10_u16_12_w32(src, ctx),
        5 => c10_u32_24(src, ctx),
        _ => c10_u32_32(src, ctx),
    }
}
