fn main() {
    vengine::main(&h_symbol::targets());
}
