#!/bin/bash
# Confirm a seeded change independently: usage tools/confirm_seeded.sh <name> <dir with patch.diff + seeded_demo.rs>
# 1. demo passes on /repo HEAD; 2. with the patch: crate compiles, existing suite passes, demo fails.
# Works in a scratch worktree outside /repo and /verif and removes it afterwards.
set -u
NAME=$1; SRC=$(realpath $2)
WT=/tmp/wt/confirm_$NAME
export CARGO_TARGET_DIR=/tmp/wt/target_confirm
export CARGO_NET_OFFLINE=true
git -C /repo worktree remove --force $WT 2>/dev/null
git -C /repo worktree add -q --detach $WT HEAD || exit 2
cd $WT
cp $SRC/seeded_demo.rs tests/seeded_demo.rs
echo "== demo WITHOUT the change (must pass)"
cargo test --offline --test seeded_demo 2>&1 | grep -E "^test result|^error" | head -5
R1=${PIPESTATUS[0]}
echo "== applying patch"
git apply $SRC/patch.diff || { echo "PATCH DOES NOT APPLY"; git -C /repo worktree remove --force $WT; exit 3; }
echo "== existing suite WITH the change (must pass; seeded_demo excluded)"
mv tests/seeded_demo.rs /tmp/wt/seeded_demo_$NAME.rs
cargo test --workspace --no-fail-fast --offline 2>&1 | grep -E "^test result|^error|FAILED|failed" | head -12
R2=${PIPESTATUS[0]}
mv /tmp/wt/seeded_demo_$NAME.rs tests/seeded_demo.rs
echo "== demo WITH the change (must fail)"
cargo test --offline --test seeded_demo 2>&1 | grep -E "^test result|^error" | head -5
R3=${PIPESTATUS[0]}
echo "RESULT $NAME demo_without=$R1 suite_with=$R2 demo_with=$R3  (want 0 0 nonzero)"
cd /; git -C /repo worktree remove --force $WT
