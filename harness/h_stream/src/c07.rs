//! C07 — random access: seeking to a recorded position resumes decoding exactly there.
//!
//! Range coder: a message is encoded with a snapshot `encoder.pos()` taken at *every*
//! symbol boundary (a sizeable fraction of them while words are held back for a pending
//! carry); a decoder over the sealed data (owned buffer, borrowed slice, or the temporary
//! decoder an encoder hands out) then executes a generated seek script: targets in
//! arbitrary order with repetitions, each followed by decoding a generated number of
//! symbols; the final position; positions beyond the data.
//!
//! ANS coder: snapshots after every push; seekable decoders from `as_seekable_decoder`,
//! `into_seekable_decoder`, reversed data with mirrored positions, and the `Vec` backend
//! (whose seek truncates, so only non-increasing targets are legal there).

use constriction::stream::queue::{EncoderSituation, RangeDecoder, RangeEncoder};
use constriction::stream::stack::AnsCoder;
use constriction::stream::{Decode, Encode};
use constriction::{Pos, Seek, UnwrapInfallible};
use hcommon::{gen_tab, hexwords, Tab};
use vengine::{note, vassume, vcheck, CaseResult, Ctx, Src};

macro_rules! precs {
    ([$(($Pr:ty, $P:literal)),+]) => { [$($P as u32),+] };
}

/// Executes the seek script on decoder `$d` (queue semantics).
macro_rules! range_script {
    ($d:expr, $script:expr, $snaps:expr, $msg:expr, $nwords:expr, $plist:tt, $what:expr, $ctx:expr) => {{
        let n = $msg.len();
        for step in $script.iter() {
            match *step {
                Step::Seek(k, cnt) => {
                    let r = $d.seek($snaps[k].clone());
                    vcheck!(r.is_ok(), "C07/range_seek_refused", "{}: seek to the snapshot taken before symbol {} (word pos {}) was refused", $what, k, $snaps[k].0);
                    if k == n {
                        vcheck!($d.maybe_exhausted(), "C07/range_final_position_not_exhausted", "{}: after seeking to the encoder's final position the decoder does not report maybe_exhausted", $what);
                    }
                    for i in k..(k + cnt).min(n) {
                        let (sym, tab) = &$msg[i];
                        let r = with_prec!(tab.sel, $plist, |M| $d.decode_symbol(M::new(tab)).map_err(|e| format!("{:?}", e)));
                        vcheck!(
                            r == Ok(*sym),
                            "C07/range_wrong_symbol_after_seek",
                            "{}: after seek to snapshot {} (word pos {}), symbol {} decoded as {:?} instead of {}",
                            $what,
                            k,
                            $snaps[k].0,
                            i,
                            r,
                            sym
                        );
                    }
                }
                Step::Beyond(extra, k) => {
                    let bad = ($nwords + extra, $snaps[k].1);
                    let r = $d.seek(bad);
                    vcheck!(r.is_err(), "C07/range_seek_beyond_accepted", "{}: seek to word position {} was accepted, the data has {} words", $what, $nwords + extra, $nwords);
                    $ctx.label("seek_beyond_end_refused");
                }
            }
        }
    }};
}

#[derive(Clone, Copy, Debug)]
enum Step {
    /// seek to snapshot k, then decode up to cnt symbols
    Seek(usize, usize),
    /// seek to position len+extra with the state of snapshot k: must be refused
    Beyond(usize, usize),
}

macro_rules! c07_range_row {
    ($name:ident, $label:literal, $W:ty, $S:ty, $plist:tt) => {
        pub fn $name(src: &mut Src, ctx: &mut Ctx) -> CaseResult {
            type Enc = RangeEncoder<$W, $S, Vec<$W>>;
            const PRECS: &[u32] = &precs!($plist);
            ctx.label(concat!("cfg:", $label));
            note!(ctx, "cfg {} (range coder)", $label);
            let via = src.below(4);
            // the seek script is drawn first, in units of 1/256 of the message length
            let nsteps = src.range_usize(1, 12);
            let raw: Vec<(u64, u64, u64)> = (0..nsteps).map(|_| (src.below(10), src.below(256), src.below(24))).collect();
            let mut enc = Enc::new();
            let max_syms = if ctx.tier == 0 { 60 } else { 600 };
            let mut msg: Vec<(usize, Tab)> = Vec::new();
            let mut snaps = vec![enc.pos()];
            let mut cur_sel: u8 = src.below(PRECS.len() as u64) as u8;
            let mut inverted_snaps: Vec<usize> = Vec::new();
            while msg.len() < max_syms && !src.is_empty() {
                if src.ratio(1, 4) {
                    cur_sel = src.below(PRECS.len() as u64) as u8;
                }
                let tab = gen_tab(src, PRECS[cur_sel as usize], cur_sel, 8);
                let sym = src.below_usize(tab.n());
                let r = with_prec!(tab.sel, $plist, |M| enc.encode_symbol(sym, M::new(&tab)));
                vassume!(ctx, r.is_ok(), "foreign:C02/encode_failed");
                note!(ctx, "encode sym={} {}", sym, tab.render());
                msg.push((sym, tab));
                snaps.push(enc.pos());
                if let EncoderSituation::Inverted(k, _) = enc.clone().into_raw_parts().2 {
                    inverted_snaps.push(msg.len());
                    ctx.label("snapshot_while_inverted");
                    if k.get() >= 2 {
                        ctx.label("snapshot_while_inverted_len>=2");
                    }
                }
            }
            let n = msg.len();
            let script: Vec<Step> = raw
                .iter()
                .map(|&(kind, a, b)| {
                    if kind == 0 {
                        Step::Beyond(1 + (a as usize % 3), (b as usize) % (n + 1))
                    } else if kind <= 3 && !inverted_snaps.is_empty() {
                        // prefer snapshots taken while words were held back
                        Step::Seek(inverted_snaps[a as usize % inverted_snaps.len()], b as usize)
                    } else if kind == 4 {
                        Step::Seek(n, b as usize)
                    } else {
                        Step::Seek((a as usize * (n + 1)) >> 8, b as usize)
                    }
                })
                .collect();
            note!(ctx, "script {:?}", script);
            if script.iter().any(|s| matches!(s, Step::Seek(k, c) if *k < n && *c > 0)) && n >= 2 {
                ctx.nontrivial();
            }
            let mut e2 = enc.clone();
            let words: Vec<$W> = enc.into_compressed().unwrap_infallible();
            note!(ctx, "sealed {}", hexwords(&words));
            let nwords = words.len();
            match via {
                0 => {
                    ctx.label("dec:owned");
                    let mut d = RangeDecoder::<$W, $S, _>::from_compressed(words.clone()).unwrap_infallible();
                    range_script!(d, script, snaps, msg, nwords, $plist, "owned buffer", ctx);
                }
                1 => {
                    ctx.label("dec:borrowed");
                    let mut d = RangeDecoder::<$W, $S, _>::from_compressed(&words[..]).unwrap_infallible();
                    range_script!(d, script, snaps, msg, nwords, $plist, "borrowed slice", ctx);
                }
                2 => {
                    ctx.label("dec:temporary");
                    let mut d = e2.decoder();
                    range_script!(d, script, snaps, msg, nwords, $plist, "encoder.decoder()", ctx);
                }
                _ => {
                    // the reversed words behind `Reverse<Cursor>`: queue reads walk the buffer downwards, positions are
                    // passed through unconverted, i.e. mirrored (len - pos)
                    ctx.label("dec:reversed_cursor");
                    let rev: Vec<$W> = words.iter().rev().cloned().collect();
                    let backend = constriction::backends::Reverse(constriction::backends::Cursor::new_at_write_end(rev));
                    let mut d = RangeDecoder::<$W, $S, _>::with_backend(backend).unwrap_infallible();
                    let mirrored: Vec<_> = snaps.iter().map(|s| (nwords - s.0, s.1.clone())).collect();
                    range_script!(d, script, mirrored, msg, nwords, $plist, "Reverse<Cursor> over the reversed words", ctx);
                }
            }
            // ---- the same message through an encoder whose sink is a reversed cursor (words are written downwards) -------
            // The snapshots come from that encoder; the decoder reads the finished buffer through the same kind of backend.
            // (No new draws.) A snapshot taken while words were held back is a KNOWN FINDING of the unchanged tree (F25:
            // `RangeEncoder::pos` adds the number of held-back words to the sink's position although this sink counts
            // downwards); it is reported under a signature of its own, every other failure under the usual ones.
            {
                use constriction::backends::{Cursor as Cur, Reverse as Rev};
                let cap = nwords + 2 * (<$S>::BITS / <$W>::BITS) as usize + 2;
                let mut e3 = RangeEncoder::<$W, $S, _>::with_backend(Rev(Cur::new_at_write_end(vec![0 as $W; cap])));
                let mut snaps3 = vec![e3.pos()];
                for (sym, tab) in msg.iter() {
                    let r = with_prec!(tab.sel, $plist, |M| e3.encode_symbol(*sym, M::new(tab)).is_ok());
                    vassume!(ctx, r, "foreign:C02/encode_failed");
                    snaps3.push(e3.pos());
                }
                let buf = match e3.into_compressed() {
                    Ok(Rev(cur)) => cur.into_buf_and_pos().0,
                    Err(_) => {
                        ctx.discard("foreign:C02/seal_failed_on_bounded_sink");
                        return Ok(());
                    }
                };
                let mut d = RangeDecoder::<$W, $S, _>::with_backend(Rev(Cur::new_at_write_end(buf))).unwrap_infallible();
                ctx.label("enc:reversed_cursor_sink");
                for step in script.iter() {
                    if let Step::Seek(k, cnt) = *step {
                        let held_back = inverted_snaps.contains(&k);
                        let mut ok = d.seek(snaps3[k].clone()).is_ok();
                        let mut at = k;
                        if ok {
                            for i in k..(k + cnt).min(n) {
                                let (sym, tab) = &msg[i];
                                let r = with_prec!(tab.sel, $plist, |M| d.decode_symbol(M::new(tab)).ok());
                                if r != Some(*sym) {
                                    ok = false;
                                    at = i;
                                    break;
                                }
                            }
                        }
                        if held_back {
                            vcheck!(ok, "C07/range_snapshot_while_held_back_from_encoder_over_reversed_sink", "encoder over Reverse<Cursor>: snapshot {} (position {}) was taken while words were held back; seeking there and decoding fails at symbol {}", k, snaps3[k].0, at);
                        } else {
                            vcheck!(ok, "C07/range_wrong_symbol_after_seek", "encoder over Reverse<Cursor>: after seek to snapshot {} (position {}), symbol {} is not decoded correctly", k, snaps3[k].0, at);
                        }
                    }
                }
            }
            Ok(())
        }
    };
}

/// Executes a seek script on an ANS decoder (stack semantics): after seek to snapshot k
/// the decoder yields symbols k-1, k-2, ..
macro_rules! ans_script {
    ($d:expr, $script:expr, $posof:expr, $snaps:expr, $msg:expr, $plist:tt, $what:expr, $ctx:expr, $monotone:expr, $beyond:expr) => {{
        let mut last_k = usize::MAX;
        for step in $script.iter() {
            match *step {
                Step::Seek(k, cnt) => {
                    // a truncating backend can only seek downwards
                    let k = if $monotone && k > last_k { last_k } else { k };
                    let target = ($posof($snaps[k].0), $snaps[k].1);
                    let r = $d.seek(target);
                    vcheck!(r.is_ok(), "C07/ans_seek_refused", "{}: seek to the snapshot taken after {} pushes was refused", $what, k);
                    vcheck!($d.pos() == target, "C07/ans_pos_after_seek", "{}: pos() after seek differs from the position sought", $what);
                    let stop = k.saturating_sub(cnt);
                    for i in (stop..k).rev() {
                        let (sym, tab) = &$msg[i];
                        let r = with_prec!(tab.sel, $plist, |M| $d.decode_symbol(M::new(tab)).ok());
                        vcheck!(
                            r == Some(*sym),
                            "C07/ans_wrong_symbol_after_seek",
                            "{}: after seek to the snapshot taken after {} pushes, symbol {} decoded as {:?} instead of {}",
                            $what,
                            k,
                            i,
                            r,
                            sym
                        );
                    }
                    last_k = stop;
                }
                Step::Beyond(extra, k) => {
                    let bad = ($beyond(extra), $snaps[k].1);
                    let before = $d.pos();
                    let r = $d.seek(bad);
                    vcheck!(r.is_err(), "C07/ans_seek_beyond_accepted", "{}: seek beyond the data was accepted", $what);
                    vcheck!($d.pos() == before, "C07/ans_failed_seek_moved_decoder", "{}: a refused seek changed the decoder's position", $what);
                    $ctx.label("seek_beyond_end_refused");
                }
            }
        }
    }};
}

macro_rules! c07_ans_row {
    ($name:ident, $label:literal, $W:ty, $S:ty, $plist:tt) => {
        pub fn $name(src: &mut Src, ctx: &mut Ctx) -> CaseResult {
            type Coder = AnsCoder<$W, $S, Vec<$W>>;
            const PRECS: &[u32] = &precs!($plist);
            ctx.label(concat!("cfg:", $label));
            note!(ctx, "cfg {} (ANS)", $label);
            let via = src.below(4);
            let nsteps = src.range_usize(1, 12);
            let raw: Vec<(u64, u64, u64)> = (0..nsteps).map(|_| (src.below(10), src.below(256), src.below(24))).collect();
            let mut coder = Coder::new();
            let max_syms = if ctx.tier == 0 { 60 } else { 600 };
            let mut msg: Vec<(usize, Tab)> = Vec::new();
            let mut snaps = vec![coder.pos()];
            let mut cur_sel: u8 = src.below(PRECS.len() as u64) as u8;
            while msg.len() < max_syms && !src.is_empty() {
                if src.ratio(1, 4) {
                    cur_sel = src.below(PRECS.len() as u64) as u8;
                }
                let tab = gen_tab(src, PRECS[cur_sel as usize], cur_sel, 8);
                let sym = src.below_usize(tab.n());
                let r = with_prec!(tab.sel, $plist, |M| coder.encode_symbol(sym, M::new(&tab)));
                vassume!(ctx, r.is_ok(), "foreign:C01/encode_failed");
                note!(ctx, "encode sym={} {}", sym, tab.render());
                msg.push((sym, tab));
                snaps.push(coder.pos());
            }
            let n = msg.len();
            let script: Vec<Step> = raw
                .iter()
                .map(|&(kind, a, b)| {
                    if kind == 0 {
                        Step::Beyond(1 + (a as usize % 3), (b as usize) % (n + 1))
                    } else if kind == 1 {
                        Step::Seek(n, b as usize)
                    } else {
                        Step::Seek((a as usize * (n + 1)) >> 8, b as usize)
                    }
                })
                .collect();
            note!(ctx, "script {:?}", script);
            let bulk_len = coder.bulk().len();
            if script.iter().any(|s| matches!(s, Step::Seek(k, c) if *k >= 1 && *c > 0)) && bulk_len >= 1 {
                ctx.nontrivial();
            }
            match via {
                0 => {
                    ctx.label("dec:as_seekable_decoder");
                    let mut d = coder.as_seekable_decoder();
                    ans_script!(d, script, |p: usize| p, snaps, msg, $plist, "as_seekable_decoder", ctx, false, |e: usize| bulk_len + e);
                }
                1 => {
                    ctx.label("dec:into_seekable_decoder");
                    let mut d = coder.clone().into_seekable_decoder();
                    ans_script!(d, script, |p: usize| p, snaps, msg, $plist, "into_seekable_decoder", ctx, false, |e: usize| bulk_len + e);
                }
                2 => {
                    ctx.label("dec:reversed");
                    let mut compressed: Vec<$W> = coder.clone().into_compressed().unwrap_infallible();
                    compressed.reverse();
                    let total = compressed.len();
                    match AnsCoder::<$W, $S, _>::from_reversed_compressed(compressed) {
                        Ok(mut d) => {
                            // positions are mirrored; "beyond" is now below 0, i.e. not expressible: use > total
                            ans_script!(d, script, |p: usize| total - p, snaps, msg, $plist, "from_reversed_compressed", ctx, false, |e: usize| total + e);
                        }
                        Err(_) => { ctx.discard("foreign:C01/reimport_rejected"); return Ok(()); }
                    }
                }
                _ if bulk_len % 2 == 1 => {
                    // the same consuming stack behind a SmallVec (inline capacity larger than the data, or spilled)
                    ctx.label("dec:smallvec_backend_truncating");
                    let (bulk, state) = coder.clone().into_raw_parts();
                    let sv: smallvec::SmallVec<[$W; 8]> = smallvec::SmallVec::from_slice(&bulk);
                    let mut d = AnsCoder::<$W, $S, _>::from_raw_parts(sv, state);
                    ans_script!(d, script, |p: usize| p, snaps, msg, $plist, "SmallVec backend", ctx, true, |e: usize| bulk_len + e);
                }
                _ => {
                    ctx.label("dec:vec_backend_truncating");
                    let mut d = coder.clone();
                    ans_script!(d, script, |p: usize| p, snaps, msg, $plist, "Vec backend", ctx, true, |e: usize| bulk_len + e);
                }
            }
            Ok(())
        }
    };
}

pub mod range_rows {
    use super::*;
    for_ans_rows!(c07_range_row);
}
pub mod ans_rows {
    use super::*;
    for_ans_rows!(c07_ans_row);
}

macro_rules! dispatch {
    ($m:ident, $src:expr, $ctx:expr) => {
        match $src.below(crate::cfg::N_ANS_ROWS as u64) {
            0 => $m::r_u8_u16($src, $ctx),
            1 => $m::r_u8_u32($src, $ctx),
            2 => $m::r_u8_u64($src, $ctx),
            3 => $m::r_u16_u32($src, $ctx),
            4 => $m::r_u16_u64($src, $ctx),
            5 => $m::r_u32_u64($src, $ctx),
            6 => $m::r_u32_u128($src, $ctx),
            _ => $m::r_u64_u128($src, $ctx),
        }
    };
}

pub fn c07_range(src: &mut Src, ctx: &mut Ctx) -> CaseResult {
    dispatch!(range_rows, src, ctx)
}
pub fn c07_ans(src: &mut Src, ctx: &mut Ctx) -> CaseResult {
    dispatch!(ans_rows, src, ctx)
}
