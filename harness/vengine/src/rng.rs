//! Seeded case generation: case `i` of a run is a pure function of
//! `(seed, target name, i, max_len)`.

pub struct Xoshiro {
    s: [u64; 4],
}

fn splitmix(x: &mut u64) -> u64 {
    *x = x.wrapping_add(0x9e37_79b9_7f4a_7c15);
    let mut z = *x;
    z = (z ^ (z >> 30)).wrapping_mul(0xbf58_476d_1ce4_e5b9);
    z = (z ^ (z >> 27)).wrapping_mul(0x94d0_49bb_1331_11eb);
    z ^ (z >> 31)
}

impl Xoshiro {
    pub fn new(seed: u64) -> Self {
        let mut x = seed;
        Xoshiro {
            s: [splitmix(&mut x), splitmix(&mut x), splitmix(&mut x), splitmix(&mut x)],
        }
    }
    #[inline]
    pub fn next(&mut self) -> u64 {
        let r = self.s[1].wrapping_mul(5).rotate_left(7).wrapping_mul(9);
        let t = self.s[1] << 17;
        self.s[2] ^= self.s[0];
        self.s[3] ^= self.s[1];
        self.s[1] ^= self.s[2];
        self.s[0] ^= self.s[3];
        self.s[2] ^= t;
        self.s[3] = self.s[3].rotate_left(45);
        r
    }
    #[inline]
    pub fn below(&mut self, n: u64) -> u64 {
        if n == 0 {
            0
        } else {
            ((self.next() as u128 * n as u128) >> 64) as u64
        }
    }
}

pub fn name_hash(name: &str) -> u64 {
    let mut h = 0xcbf2_9ce4_8422_2325u64;
    for b in name.bytes() {
        h ^= b as u64;
        h = h.wrapping_mul(0x0000_0100_0000_01b3);
    }
    h
}

/// The byte string of case `index`.
///
/// Length classes: 40 % short (8..48), 40 % medium (48..192), 20 % long (192..max_len).
/// Styles: mostly uniform bytes; some cases get runs of 0x00/0xff (which decode to the
/// ends of ranges), a small alphabet, or a repeated block, so that extreme and
/// repetitive structures are not left to chance.
pub fn gen_case(seed: u64, target: &str, index: u64, max_len: usize) -> Vec<u8> {
    let mut r = Xoshiro::new(
        seed.wrapping_mul(0xd6e8_feb8_6659_fd93)
            ^ name_hash(target)
            ^ index.wrapping_mul(0x9e37_79b9_7f4a_7c15).rotate_left(17),
    );
    let max_len = max_len.max(16);
    let len = match r.below(10) {
        0..=3 => 8 + r.below(40.min(max_len as u64 - 8)),
        4..=7 => 48.min(max_len as u64 - 1) + r.below((max_len as u64).min(192).saturating_sub(48).max(1)),
        _ => 192.min(max_len as u64 - 1) + r.below((max_len as u64).saturating_sub(192).max(1)),
    } as usize;
    let mut v = Vec::with_capacity(len);
    let style = r.below(16);
    match style {
        0..=9 => {
            while v.len() < len {
                let x = r.next().to_le_bytes();
                v.extend_from_slice(&x);
            }
            v.truncate(len);
        }
        10 | 11 => {
            // uniform with sprinkled extremes
            let q = 2 + r.below(8);
            for _ in 0..len {
                let x = r.next();
                let b = if (x >> 8) % q == 0 {
                    if x & 1 == 0 { 0x00 } else { 0xff }
                } else {
                    (x >> 16) as u8
                };
                v.push(b);
            }
        }
        12 | 13 => {
            // small alphabet
            let alpha: [u8; 8] = [0, 1, 2, 0xff, 0x80, 0x7f, r.next() as u8, r.next() as u8];
            for _ in 0..len {
                v.push(alpha[r.below(8) as usize]);
            }
        }
        _ => {
            // repeated block with point mutations
            let bl = 1 + r.below(12) as usize;
            let block: Vec<u8> = (0..bl).map(|_| r.next() as u8).collect();
            for i in 0..len {
                let b = if r.below(16) == 0 { r.next() as u8 } else { block[i % bl] };
                v.push(b);
            }
        }
    }
    v
}
