; ModuleID = 'autocfg_f773c68f25c436e9_0.c6b6fd6c21701583-cgu.0'
source_filename = "autocfg_f773c68f25c436e9_0.c6b6fd6c21701583-cgu.0"
target datalayout = "e-m:e-p270:32:32-p271:32:32-p272:64:64-i64:64-i128:128-f80:128-n8:16:32:64-S128"
target triple = "x86_64-unknown-linux-gnu"

$asan.module_ctor = comdat any

@___asan_globals_registered = common hidden global i64 0
@__start_asan_globals = extern_weak hidden global i64
@__stop_asan_globals = extern_weak hidden global i64
@llvm.global_ctors = appending global [1 x { i32, ptr, ptr }] [{ i32, ptr, ptr } { i32 1, ptr @asan.module_ctor, ptr @asan.module_ctor }]
@__sancov_lowest_stack = external thread_local(initialexec) global i64
@llvm.used = appending global [1 x ptr] [ptr @asan.module_ctor], section "llvm.metadata"

declare void @__asan_before_dynamic_init(i64)

declare void @__asan_after_dynamic_init()

declare void @__asan_register_globals(i64, i64)

declare void @__asan_unregister_globals(i64, i64)

declare void @__asan_register_image_globals(i64)

declare void @__asan_unregister_image_globals(i64)

declare void @__asan_register_elf_globals(i64, i64, i64)

declare void @__asan_unregister_elf_globals(i64, i64, i64)

declare void @__asan_init()

; Function Attrs: nounwind
define internal void @asan.module_ctor() #0 comdat {
  call void @__asan_init()
  call void @__asan_version_mismatch_check_v8()
  call void @__asan_register_elf_globals(i64 ptrtoint (ptr @___asan_globals_registered to i64), i64 ptrtoint (ptr @__start_asan_globals to i64), i64 ptrtoint (ptr @__stop_asan_globals to i64))
  ret void
}

declare void @__asan_version_mismatch_check_v8()

declare void @__sanitizer_cov_trace_pc_indir(i64)

declare void @__sanitizer_cov_trace_cmp1(i8 zeroext, i8 zeroext)

declare void @__sanitizer_cov_trace_cmp2(i16 zeroext, i16 zeroext)

declare void @__sanitizer_cov_trace_cmp4(i32 zeroext, i32 zeroext)

declare void @__sanitizer_cov_trace_cmp8(i64, i64)

declare void @__sanitizer_cov_trace_const_cmp1(i8 zeroext, i8 zeroext)

declare void @__sanitizer_cov_trace_const_cmp2(i16 zeroext, i16 zeroext)

declare void @__sanitizer_cov_trace_const_cmp4(i32 zeroext, i32 zeroext)

declare void @__sanitizer_cov_trace_const_cmp8(i64, i64)

declare void @__sanitizer_cov_load1(ptr)

declare void @__sanitizer_cov_load2(ptr)

declare void @__sanitizer_cov_load4(ptr)

declare void @__sanitizer_cov_load8(ptr)

declare void @__sanitizer_cov_load16(ptr)

declare void @__sanitizer_cov_store1(ptr)

declare void @__sanitizer_cov_store2(ptr)

declare void @__sanitizer_cov_store4(ptr)

declare void @__sanitizer_cov_store8(ptr)

declare void @__sanitizer_cov_store16(ptr)

declare void @__sanitizer_cov_trace_div4(i32 zeroext)

declare void @__sanitizer_cov_trace_div8(i64)

declare void @__sanitizer_cov_trace_gep(i64)

declare void @__sanitizer_cov_trace_switch(i64, ptr)

declare void @__sanitizer_cov_trace_pc()

declare void @__sanitizer_cov_trace_pc_guard(ptr)

declare void @__sanitizer_cov_stack_depth()

attributes #0 = { nounwind }

!llvm.module.flags = !{!0, !1, !2}
!llvm.ident = !{!3}

!0 = !{i32 8, !"PIC Level", i32 2}
!1 = !{i32 2, !"RtLibUseGOT", i32 1}
!2 = !{i32 4, !"nosanitize_address", i32 1}
!3 = !{!"rustc version 1.97.0-nightly (ad3a598ca 2026-05-03)"}
