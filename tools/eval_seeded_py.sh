#!/bin/bash
# usage: tools/eval_seeded.sh <name e.g. C16b> <check ids...>
# copies the sub-agent's deliverables into seeded/<name>, confirms them independently and runs the named checks against the patch
set -u
cd "$(dirname "$0")/.."
NAME=$1; shift
mkdir -p seeded/$NAME
cp /tmp/wt/$NAME/_seeded/patch.diff /tmp/wt/$NAME/_seeded/seeded_demo.py /tmp/wt/$NAME/_seeded/meta.json seeded/$NAME/ || exit 2
CONF=$(tools/confirm_seeded_py.sh $NAME seeded/$NAME 2>&1 | grep -E "RESULT|PATCH")
echo "$CONF"
OUT=$(tools/try_patch.py seeded/$NAME/patch.diff "$@" 2>&1)
echo "$OUT" | grep -E "signature|SUMMARY|INCONCL" | cut -c1-260
python3 - "$NAME" "$CONF" "$OUT" "$@" <<'PY'
import json,sys,re
name,conf,out=sys.argv[1],sys.argv[2],sys.argv[3]; ids=sys.argv[4:]
meta=json.load(open('seeded/%s/meta.json'%name))
sigs=re.findall(r'signature: (\S.*?)  \(',out)
summ=[l for l in out.splitlines() if l.startswith('SUMMARY')]
v={"property":meta.get("property"),"needs":meta.get("needs"),
   "confirmed_by_me":{"how":"tools/confirm_seeded_py.sh %s seeded/%s (scratch worktree of /repo HEAD: demo passes without the change; with patch.diff the crate compiles and cargo test --workspace --no-fail-fast --offline passes; demo fails with the change; worktree removed)"%(name,name),"result":conf.strip()},
   "ran_checks":"tools/try_patch.py seeded/%s/patch.diff %s"%(name," ".join(ids)),
   "summary_line":summ[-1] if summ else "", "signatures":sigs}
json.dump(v,open('seeded/%s/verified.json'%name,'w'),indent=1)
PY
