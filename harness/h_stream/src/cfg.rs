//! Configuration grid and precision dispatch macros.
//!
//! A *row* is `(Word, State, [(Probability, PRECISION), …])`.  Const generics force
//! monomorphisation, so the grid is finite and macro generated; it is chosen to cover every
//! relation the coders distinguish (State = 2, 4, 8 words; `S-W-P = 0` reachable;
//! `P == Probability::BITS`; probability type narrower than the word).

/// Runs `$body` with `$M` bound to the type alias `TV<'_, Probability, PRECISION>` selected by
/// `$sel` from the row's precision list.  All arms must have the same result type.
#[macro_export]
macro_rules! with_prec {
    ($sel:expr, [$(($Pr:ty, $P:literal)),+], |$M:ident| $body:expr) => {{
        let __sel: u8 = $sel;
        let mut __k: u8 = 0;
        let mut __res = None;
        $(
            if __res.is_none() && __sel == __k {
                #[allow(dead_code)]
                type $M<'a> = hcommon::TV<'a, $Pr, $P>;
                __res = Some($body);
            }
            __k += 1;
        )+
        let _ = __k;
        match __res {
            Some(r) => r,
            None => panic!("harness: precision selector out of range"),
        }
    }};
}

/// Calls `$mac!(name, Word, State, [precisions])` for every row of the ANS grid
/// (any `State >= 2*Word`).
#[macro_export]
macro_rules! for_ans_rows {
    ($mac:ident) => {
        $mac!(r_u8_u16, "u8/u16", u8, u16, [(u8, 1), (u8, 3), (u8, 8)]);
        $mac!(r_u8_u32, "u8/u32", u8, u32, [(u8, 1), (u8, 5), (u8, 8)]);
        $mac!(r_u8_u64, "u8/u64", u8, u64, [(u8, 8), (u8, 4)]);
        $mac!(r_u16_u32, "u16/u32", u16, u32, [(u8, 7), (u16, 12), (u16, 16), (u16, 15)]);
        $mac!(r_u16_u64, "u16/u64", u16, u64, [(u8, 8), (u16, 16), (u16, 11)]);
        $mac!(r_u32_u64, "u32/u64", u32, u64, [(u8, 8), (u16, 12), (u16, 16), (u32, 24), (u32, 32), (u32, 31)]);
        $mac!(r_u32_u128, "u32/u128", u32, u128, [(u32, 32), (u16, 9)]);
        $mac!(r_u64_u128, "u64/u128", u64, u128, [(u32, 24), (u8, 2)]);
    };
}

pub const N_ANS_ROWS: usize = 8;
