; ModuleID = 'autocfg_f773c68f25c436e9_1.e7bba5f0bc98f532-cgu.0'
source_filename = "autocfg_f773c68f25c436e9_1.e7bba5f0bc98f532-cgu.0"
target datalayout = "e-m:e-p270:32:32-p271:32:32-p272:64:64-i64:64-i128:128-f80:128-n8:16:32:64-S128"
target triple = "x86_64-unknown-linux-gnu"

$_RNvCsjTvzQyKTWN2_26autocfg_f773c68f25c436e9_15probe = comdat nodeduplicate

$_RNvMNtCsanpdEcSfypT_4core3f64d9total_cmpCsjTvzQyKTWN2_26autocfg_f773c68f25c436e9_1 = comdat nodeduplicate

$asan.module_ctor = comdat any

$asan.module_dtor = comdat any

$sancov.module_ctor_8bit_counters = comdat any

$alloc_f93507f8ba4b5780b14b2c2584609be0.b516919821bda1c86243599d9787a605 = comdat any

$alloc_ef0a1f828f3393ef691f2705e817091c.b516919821bda1c86243599d9787a605 = comdat any

@alloc_f93507f8ba4b5780b14b2c2584609be0 = internal constant { [8 x i8], [24 x i8] } { [8 x i8] c"\00\00\00\00\00\00\F0?", [24 x i8] zeroinitializer }, comdat($alloc_f93507f8ba4b5780b14b2c2584609be0.b516919821bda1c86243599d9787a605), align 32
@alloc_ef0a1f828f3393ef691f2705e817091c = internal constant { [8 x i8], [24 x i8] } { [8 x i8] c"\00\00\00\00\00\00\00@", [24 x i8] zeroinitializer }, comdat($alloc_ef0a1f828f3393ef691f2705e817091c.b516919821bda1c86243599d9787a605), align 32
@___asan_gen_global = private unnamed_addr constant [39 x i8] c"alloc_f93507f8ba4b5780b14b2c2584609be0\00", align 1
@___asan_gen_module = private constant [50 x i8] c"autocfg_f773c68f25c436e9_1.e7bba5f0bc98f532-cgu.0\00", align 1
@___asan_gen_global.1 = private unnamed_addr constant [39 x i8] c"alloc_ef0a1f828f3393ef691f2705e817091c\00", align 1
@__asan_global_alloc_f93507f8ba4b5780b14b2c2584609be0 = private global { i64, i64, i64, i64, i64, i64, i64, i64 } { i64 ptrtoint (ptr @anon.1d2e4ab44aa5084b05829d17ebe0f297.0 to i64), i64 8, i64 32, i64 ptrtoint (ptr @___asan_gen_global to i64), i64 ptrtoint (ptr @___asan_gen_module to i64), i64 0, i64 0, i64 -1 }, section "asan_globals", comdat($alloc_f93507f8ba4b5780b14b2c2584609be0.b516919821bda1c86243599d9787a605), !associated !0
@__asan_global_alloc_ef0a1f828f3393ef691f2705e817091c = private global { i64, i64, i64, i64, i64, i64, i64, i64 } { i64 ptrtoint (ptr @anon.1d2e4ab44aa5084b05829d17ebe0f297.1 to i64), i64 8, i64 32, i64 ptrtoint (ptr @___asan_gen_global.1 to i64), i64 ptrtoint (ptr @___asan_gen_module to i64), i64 0, i64 0, i64 -1 }, section "asan_globals", comdat($alloc_ef0a1f828f3393ef691f2705e817091c.b516919821bda1c86243599d9787a605), !associated !1
@___asan_globals_registered = common hidden global i64 0
@__start_asan_globals = extern_weak hidden global i64
@__stop_asan_globals = extern_weak hidden global i64
@llvm.global_dtors = appending global [1 x { i32, ptr, ptr }] [{ i32, ptr, ptr } { i32 1, ptr @asan.module_dtor, ptr @asan.module_dtor }]
@__sancov_lowest_stack = external thread_local(initialexec) global i64
@__sancov_gen_ = private global [1 x i8] zeroinitializer, section "__sancov_cntrs", comdat($_RNvCsjTvzQyKTWN2_26autocfg_f773c68f25c436e9_15probe), align 1
@__sancov_gen_.2 = private constant [2 x ptr] [ptr @_RNvCsjTvzQyKTWN2_26autocfg_f773c68f25c436e9_15probe, ptr inttoptr (i64 1 to ptr)], section "__sancov_pcs", comdat($_RNvCsjTvzQyKTWN2_26autocfg_f773c68f25c436e9_15probe), align 8
@__sancov_gen_.3 = private global [4 x i8] zeroinitializer, section "__sancov_cntrs", comdat($_RNvMNtCsanpdEcSfypT_4core3f64d9total_cmpCsjTvzQyKTWN2_26autocfg_f773c68f25c436e9_1), align 1
@__sancov_gen_.4 = private constant [8 x ptr] [ptr @_RNvMNtCsanpdEcSfypT_4core3f64d9total_cmpCsjTvzQyKTWN2_26autocfg_f773c68f25c436e9_1, ptr inttoptr (i64 1 to ptr), ptr blockaddress(@_RNvMNtCsanpdEcSfypT_4core3f64d9total_cmpCsjTvzQyKTWN2_26autocfg_f773c68f25c436e9_1, %14), ptr null, ptr blockaddress(@_RNvMNtCsanpdEcSfypT_4core3f64d9total_cmpCsjTvzQyKTWN2_26autocfg_f773c68f25c436e9_1, %24), ptr null, ptr blockaddress(@_RNvMNtCsanpdEcSfypT_4core3f64d9total_cmpCsjTvzQyKTWN2_26autocfg_f773c68f25c436e9_1, %27), ptr null], section "__sancov_pcs", comdat($_RNvMNtCsanpdEcSfypT_4core3f64d9total_cmpCsjTvzQyKTWN2_26autocfg_f773c68f25c436e9_1), align 8
@__sancov_gen_.5 = private global [1 x i8] zeroinitializer, section "__sancov_cntrs", comdat($asan.module_dtor), align 1
@__sancov_gen_.6 = private constant [2 x ptr] [ptr @asan.module_dtor, ptr inttoptr (i64 1 to ptr)], section "__sancov_pcs", comdat($asan.module_dtor), align 8
@__start___sancov_cntrs = extern_weak hidden global i8
@__stop___sancov_cntrs = extern_weak hidden global i8
@llvm.global_ctors = appending global [2 x { i32, ptr, ptr }] [{ i32, ptr, ptr } { i32 1, ptr @asan.module_ctor, ptr @asan.module_ctor }, { i32, ptr, ptr } { i32 2, ptr @sancov.module_ctor_8bit_counters, ptr @sancov.module_ctor_8bit_counters }]
@__start___sancov_pcs = extern_weak hidden global i64
@__stop___sancov_pcs = extern_weak hidden global i64
@llvm.used = appending global [3 x ptr] [ptr @asan.module_ctor, ptr @asan.module_dtor, ptr @sancov.module_ctor_8bit_counters], section "llvm.metadata"
@llvm.compiler.used = appending global [10 x ptr] [ptr @alloc_f93507f8ba4b5780b14b2c2584609be0, ptr @alloc_ef0a1f828f3393ef691f2705e817091c, ptr @__asan_global_alloc_f93507f8ba4b5780b14b2c2584609be0, ptr @__asan_global_alloc_ef0a1f828f3393ef691f2705e817091c, ptr @__sancov_gen_, ptr @__sancov_gen_.2, ptr @__sancov_gen_.3, ptr @__sancov_gen_.4, ptr @__sancov_gen_.5, ptr @__sancov_gen_.6], section "llvm.metadata"

@anon.1d2e4ab44aa5084b05829d17ebe0f297.0 = private alias { [8 x i8], [24 x i8] }, ptr @alloc_f93507f8ba4b5780b14b2c2584609be0
@anon.1d2e4ab44aa5084b05829d17ebe0f297.1 = private alias { [8 x i8], [24 x i8] }, ptr @alloc_ef0a1f828f3393ef691f2705e817091c

; autocfg_f773c68f25c436e9_1::probe
; Function Attrs: nonlazybind sanitize_address uwtable
define void @_RNvCsjTvzQyKTWN2_26autocfg_f773c68f25c436e9_15probe() unnamed_addr #0 comdat {
start:
  %0 = load i8, ptr @__sancov_gen_, align 1, !nosanitize !6
  %1 = add i8 %0, 1
  store i8 %1, ptr @__sancov_gen_, align 1, !nosanitize !6
  %2 = call ptr @llvm.frameaddress.p0(i32 0)
  %3 = ptrtoint ptr %2 to i64
  %4 = load i64, ptr @__sancov_lowest_stack, align 8, !nosanitize !6
  %5 = icmp ult i64 %3, %4
  br i1 %5, label %6, label %7, !prof !7

6:                                                ; preds = %start
  store i64 %3, ptr @__sancov_lowest_stack, align 8, !nosanitize !6
  br label %7

7:                                                ; preds = %start, %6
; call <f64>::total_cmp
  %_1 = call i8 @_RNvMNtCsanpdEcSfypT_4core3f64d9total_cmpCsjTvzQyKTWN2_26autocfg_f773c68f25c436e9_1(ptr align 8 @alloc_f93507f8ba4b5780b14b2c2584609be0, ptr align 8 @alloc_ef0a1f828f3393ef691f2705e817091c) #5
  ret void
}

; <f64>::total_cmp
; Function Attrs: inlinehint nonlazybind sanitize_address uwtable
define internal i8 @_RNvMNtCsanpdEcSfypT_4core3f64d9total_cmpCsjTvzQyKTWN2_26autocfg_f773c68f25c436e9_1(ptr align 8 %self, ptr align 8 %other) unnamed_addr #1 comdat {
start:
  %_6 = alloca [8 x i8], align 8
  %_3 = alloca [8 x i8], align 8
  %0 = load i8, ptr @__sancov_gen_.3, align 1, !nosanitize !6
  %1 = add i8 %0, 1
  store i8 %1, ptr @__sancov_gen_.3, align 1, !nosanitize !6
  %2 = call ptr @llvm.frameaddress.p0(i32 0)
  %3 = ptrtoint ptr %2 to i64
  %4 = load i64, ptr @__sancov_lowest_stack, align 8, !nosanitize !6
  %5 = icmp ult i64 %3, %4
  br i1 %5, label %6, label %7, !prof !7

6:                                                ; preds = %start
  store i64 %3, ptr @__sancov_lowest_stack, align 8, !nosanitize !6
  br label %7

7:                                                ; preds = %start, %6
  %8 = ptrtoint ptr %self to i64
  %9 = lshr i64 %8, 3
  %10 = add i64 %9, 2147450880
  %11 = inttoptr i64 %10 to ptr
  %12 = load i8, ptr %11, align 1
  call void @__sanitizer_cov_trace_const_cmp1(i8 0, i8 %12)
  %13 = icmp ne i8 %12, 0
  br i1 %13, label %14, label %17

14:                                               ; preds = %7
  %15 = load i8, ptr getelementptr ([4 x i8], ptr @__sancov_gen_.3, i64 0, i64 1), align 1, !nosanitize !6
  %16 = add i8 %15, 1
  store i8 %16, ptr getelementptr ([4 x i8], ptr @__sancov_gen_.3, i64 0, i64 1), align 1, !nosanitize !6
  call void @__asan_report_load8(i64 %8) #6
  unreachable

17:                                               ; preds = %7
  %_5 = load double, ptr %self, align 8
  %_4 = bitcast double %_5 to i64
  store i64 %_4, ptr %_3, align 8
  %18 = ptrtoint ptr %other to i64
  %19 = lshr i64 %18, 3
  %20 = add i64 %19, 2147450880
  %21 = inttoptr i64 %20 to ptr
  %22 = load i8, ptr %21, align 1
  call void @__sanitizer_cov_trace_const_cmp1(i8 0, i8 %22)
  %23 = icmp ne i8 %22, 0
  br i1 %23, label %24, label %27

24:                                               ; preds = %17
  %25 = load i8, ptr getelementptr ([4 x i8], ptr @__sancov_gen_.3, i64 0, i64 2), align 1, !nosanitize !6
  %26 = add i8 %25, 1
  store i8 %26, ptr getelementptr ([4 x i8], ptr @__sancov_gen_.3, i64 0, i64 2), align 1, !nosanitize !6
  call void @__asan_report_load8(i64 %18) #6
  unreachable

27:                                               ; preds = %17
  %28 = load i8, ptr getelementptr ([4 x i8], ptr @__sancov_gen_.3, i64 0, i64 3), align 1, !nosanitize !6
  %29 = add i8 %28, 1
  store i8 %29, ptr getelementptr ([4 x i8], ptr @__sancov_gen_.3, i64 0, i64 3), align 1, !nosanitize !6
  %_8 = load double, ptr %other, align 8
  %_7 = bitcast double %_8 to i64
  store i64 %_7, ptr %_6, align 8
  %_13 = load i64, ptr %_3, align 8
  %_12 = ashr i64 %_13, 63
  %_10 = lshr i64 %_12, 1
  %30 = load i64, ptr %_3, align 8
  %31 = xor i64 %30, %_10
  store i64 %31, ptr %_3, align 8
  %_18 = load i64, ptr %_6, align 8
  %_17 = ashr i64 %_18, 63
  %_15 = lshr i64 %_17, 1
  %32 = load i64, ptr %_6, align 8
  %33 = xor i64 %32, %_15
  store i64 %33, ptr %_6, align 8
  %34 = load i64, ptr %_3, align 8
  %35 = load i64, ptr %_6, align 8
  %_0 = call i8 @llvm.scmp.i8.i64(i64 %34, i64 %35)
  ret i8 %_0
}

; Function Attrs: nocallback nocreateundeforpoison nofree nosync nounwind speculatable willreturn memory(none)
declare range(i8 -1, 2) i8 @llvm.scmp.i8.i64(i64, i64) #2

declare void @__asan_report_load_n(i64, i64)

declare void @__asan_loadN(i64, i64)

declare void @__asan_report_load1(i64)

declare void @__asan_load1(i64)

declare void @__asan_report_load2(i64)

declare void @__asan_load2(i64)

declare void @__asan_report_load4(i64)

declare void @__asan_load4(i64)

declare void @__asan_report_load8(i64)

declare void @__asan_load8(i64)

declare void @__asan_report_load16(i64)

declare void @__asan_load16(i64)

declare void @__asan_report_store_n(i64, i64)

declare void @__asan_storeN(i64, i64)

declare void @__asan_report_store1(i64)

declare void @__asan_store1(i64)

declare void @__asan_report_store2(i64)

declare void @__asan_store2(i64)

declare void @__asan_report_store4(i64)

declare void @__asan_store4(i64)

declare void @__asan_report_store8(i64)

declare void @__asan_store8(i64)

declare void @__asan_report_store16(i64)

declare void @__asan_store16(i64)

declare void @__asan_report_exp_load_n(i64, i64, i32)

declare void @__asan_exp_loadN(i64, i64, i32)

declare void @__asan_report_exp_load1(i64, i32)

declare void @__asan_exp_load1(i64, i32)

declare void @__asan_report_exp_load2(i64, i32)

declare void @__asan_exp_load2(i64, i32)

declare void @__asan_report_exp_load4(i64, i32)

declare void @__asan_exp_load4(i64, i32)

declare void @__asan_report_exp_load8(i64, i32)

declare void @__asan_exp_load8(i64, i32)

declare void @__asan_report_exp_load16(i64, i32)

declare void @__asan_exp_load16(i64, i32)

declare void @__asan_report_exp_store_n(i64, i64, i32)

declare void @__asan_exp_storeN(i64, i64, i32)

declare void @__asan_report_exp_store1(i64, i32)

declare void @__asan_exp_store1(i64, i32)

declare void @__asan_report_exp_store2(i64, i32)

declare void @__asan_exp_store2(i64, i32)

declare void @__asan_report_exp_store4(i64, i32)

declare void @__asan_exp_store4(i64, i32)

declare void @__asan_report_exp_store8(i64, i32)

declare void @__asan_exp_store8(i64, i32)

declare void @__asan_report_exp_store16(i64, i32)

declare void @__asan_exp_store16(i64, i32)

declare ptr @__asan_memmove(ptr, ptr, i64)

declare ptr @__asan_memcpy(ptr, ptr, i64)

declare ptr @__asan_memset(ptr, i32, i64)

declare void @__asan_handle_no_return()

declare void @__sanitizer_ptr_cmp(i64, i64)

declare void @__sanitizer_ptr_sub(i64, i64)

; Function Attrs: nocallback nocreateundeforpoison nofree nosync nounwind speculatable willreturn memory(none)
declare i1 @llvm.amdgcn.is.shared(ptr) #2

; Function Attrs: nocallback nocreateundeforpoison nofree nosync nounwind speculatable willreturn memory(none)
declare i1 @llvm.amdgcn.is.private(ptr) #2

declare void @__asan_before_dynamic_init(i64)

declare void @__asan_after_dynamic_init()

declare void @__asan_register_globals(i64, i64)

declare void @__asan_unregister_globals(i64, i64)

declare void @__asan_register_image_globals(i64)

declare void @__asan_unregister_image_globals(i64)

declare void @__asan_register_elf_globals(i64, i64, i64)

declare void @__asan_unregister_elf_globals(i64, i64, i64)

declare void @__asan_init()

; Function Attrs: nounwind
define internal void @asan.module_ctor() #3 comdat {
  call void @__asan_init()
  call void @__asan_version_mismatch_check_v8()
  call void @__asan_register_elf_globals(i64 ptrtoint (ptr @___asan_globals_registered to i64), i64 ptrtoint (ptr @__start_asan_globals to i64), i64 ptrtoint (ptr @__stop_asan_globals to i64))
  ret void
}

declare void @__asan_version_mismatch_check_v8()

; Function Attrs: nounwind
define internal void @asan.module_dtor() #3 comdat {
  %1 = load i8, ptr @__sancov_gen_.5, align 1, !nosanitize !6
  %2 = add i8 %1, 1
  store i8 %2, ptr @__sancov_gen_.5, align 1, !nosanitize !6
  %3 = call ptr @llvm.frameaddress.p0(i32 0)
  %4 = ptrtoint ptr %3 to i64
  %5 = load i64, ptr @__sancov_lowest_stack, align 8, !nosanitize !6
  %6 = icmp ult i64 %4, %5
  br i1 %6, label %7, label %8, !prof !7

7:                                                ; preds = %0
  store i64 %4, ptr @__sancov_lowest_stack, align 8, !nosanitize !6
  br label %8

8:                                                ; preds = %0, %7
  call void @__asan_unregister_elf_globals(i64 ptrtoint (ptr @___asan_globals_registered to i64), i64 ptrtoint (ptr @__start_asan_globals to i64), i64 ptrtoint (ptr @__stop_asan_globals to i64))
  ret void
}

declare void @__sanitizer_cov_trace_pc_indir(i64)

declare void @__sanitizer_cov_trace_cmp1(i8 zeroext, i8 zeroext)

declare void @__sanitizer_cov_trace_cmp2(i16 zeroext, i16 zeroext)

declare void @__sanitizer_cov_trace_cmp4(i32 zeroext, i32 zeroext)

declare void @__sanitizer_cov_trace_cmp8(i64, i64)

declare void @__sanitizer_cov_trace_const_cmp1(i8 zeroext, i8 zeroext)

declare void @__sanitizer_cov_trace_const_cmp2(i16 zeroext, i16 zeroext)

declare void @__sanitizer_cov_trace_const_cmp4(i32 zeroext, i32 zeroext)

declare void @__sanitizer_cov_trace_const_cmp8(i64, i64)

declare void @__sanitizer_cov_load1(ptr)

declare void @__sanitizer_cov_load2(ptr)

declare void @__sanitizer_cov_load4(ptr)

declare void @__sanitizer_cov_load8(ptr)

declare void @__sanitizer_cov_load16(ptr)

declare void @__sanitizer_cov_store1(ptr)

declare void @__sanitizer_cov_store2(ptr)

declare void @__sanitizer_cov_store4(ptr)

declare void @__sanitizer_cov_store8(ptr)

declare void @__sanitizer_cov_store16(ptr)

declare void @__sanitizer_cov_trace_div4(i32 zeroext)

declare void @__sanitizer_cov_trace_div8(i64)

declare void @__sanitizer_cov_trace_gep(i64)

declare void @__sanitizer_cov_trace_switch(i64, ptr)

declare void @__sanitizer_cov_trace_pc()

declare void @__sanitizer_cov_trace_pc_guard(ptr)

declare void @__sanitizer_cov_stack_depth()

; Function Attrs: nocallback nofree nosync nounwind willreturn memory(none)
declare ptr @llvm.frameaddress.p0(i32 immarg) #4

declare void @__sanitizer_cov_8bit_counters_init(ptr, ptr)

; Function Attrs: nounwind
define internal void @sancov.module_ctor_8bit_counters() #3 comdat {
  call void @__sanitizer_cov_8bit_counters_init(ptr @__start___sancov_cntrs, ptr @__stop___sancov_cntrs)
  call void @__sanitizer_cov_pcs_init(ptr @__start___sancov_pcs, ptr @__stop___sancov_pcs)
  ret void
}

declare void @__sanitizer_cov_pcs_init(ptr, ptr)

attributes #0 = { nonlazybind sanitize_address uwtable "target-cpu"="x86-64" }
attributes #1 = { inlinehint nonlazybind sanitize_address uwtable "target-cpu"="x86-64" }
attributes #2 = { nocallback nocreateundeforpoison nofree nosync nounwind speculatable willreturn memory(none) }
attributes #3 = { nounwind }
attributes #4 = { nocallback nofree nosync nounwind willreturn memory(none) }
attributes #5 = { inlinehint }
attributes #6 = { nomerge }

!llvm.module.flags = !{!2, !3, !4}
!llvm.ident = !{!5}

!0 = !{ptr @alloc_f93507f8ba4b5780b14b2c2584609be0}
!1 = !{ptr @alloc_ef0a1f828f3393ef691f2705e817091c}
!2 = !{i32 8, !"PIC Level", i32 2}
!3 = !{i32 2, !"RtLibUseGOT", i32 1}
!4 = !{i32 4, !"nosanitize_address", i32 1}
!5 = !{!"rustc version 1.97.0-nightly (ad3a598ca 2026-05-03)"}
!6 = !{}
!7 = !{!"branch_weights", i32 1, i32 1048575}
