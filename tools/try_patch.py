#!/usr/bin/env python3
"""Apply a patch (or the reverse of a fix commit, `rev:<commit>`) to /repo, run the quick
checks of the given properties, and ALWAYS restore /repo afterwards.

  tools/try_patch.py seeded/C01/patch.diff C01 C18
  tools/try_patch.py rev:075d164 C04
"""
import subprocess, sys, os
ROOT = os.path.dirname(os.path.dirname(os.path.abspath(__file__)))

def sh(cmd, **kw):
    return subprocess.run(cmd, shell=True, text=True, **kw)

def main():
    what, ids = sys.argv[1], sys.argv[2:]
    tier = "quick"
    if ids and ids[-1] in ("quick", "thorough"):
        tier = ids.pop()
    st = sh("git -C /repo status --porcelain --untracked-files=no", stdout=subprocess.PIPE).stdout.strip()
    if st:
        print("refusing: /repo has uncommitted changes:\n" + st)
        sys.exit(2)
    try:
        if what.startswith("rev:"):
            r = sh("git -C /repo show %s -- src | git -C /repo apply -R" % what[4:])
        else:
            r = sh("git -C /repo apply %s" % os.path.abspath(what))
        if r.returncode != 0:
            print("patch does not apply")
            sys.exit(2)
        results = {}
        for pid in ids:
            p = sh("cd %s && ./check %s %s" % (ROOT, pid, tier), stdout=subprocess.PIPE, stderr=subprocess.STDOUT)
            results[pid] = p.returncode
            lines = p.stdout.strip().splitlines()
            print("---- %s exit=%d" % (pid, p.returncode))
            for l in lines[-14:]:
                print("   " + l[:400])
        print("SUMMARY", what, " ".join("%s=%s" % (k, {0: "silent", 1: "CAUGHT", 2: "inconclusive"}.get(v, v)) for k, v in results.items()))
    finally:
        keep = os.environ.get("KEEP_TO")
        if keep:
            os.makedirs(keep, exist_ok=True)
            sh("cp %s/replays/*/found-* %s/ 2>/dev/null" % (ROOT, keep))
        sh("rm -f %s/replays/*/found-*" % ROOT)
        sh("git -C /repo checkout -- . ")
        st = sh("git -C /repo status --porcelain --untracked-files=no", stdout=subprocess.PIPE).stdout.strip()
        if st:
            print("WARNING: /repo not clean after restore:\n" + st)

main()
