//! C09 — impossible symbols are rejected and a failed encode leaves the coder intact.
//!
//! Generator: 1..3 valid models with an encoder view from the zoo (harness tables,
//! uniform, contiguous, lazy, non-contiguous encoder, leakily quantised), used round-robin;
//! a valid encode history of 0..40 symbols with *bad* encodes inserted at generated points;
//! bad symbols are taken from each model's `outside` list: neighbours of the support, type
//! extremes, values congruent to an in-support symbol modulo 2^8 / 2^16 / 2^32.  Coders:
//! ANS over `Vec`, range encoder, chain coder (after decoding some symbols), ANS over a
//! bounded `Cursor` that fills up, ANS over a backend that fails exactly the j-th write,
//! bit-level stack / queue coders with a Huffman codebook.
//!
//! Oracle: the bad encode returns the impossible-symbol error; the coder's exported state is
//! the same before and after; the complete valid history decodes correctly afterwards. After
//! a backend write error: everything encoded before decodes, and after popping a symbol,
//! encoding continues.

use crate::zoo;
use constriction::backends::{Cursor, ReadWords, Reverse, WriteWords};
use constriction::stream::chain::ChainCoder;
use constriction::stream::queue::RangeEncoder;
use constriction::stream::stack::AnsCoder;
use constriction::stream::{Code, Decode, Encode};
use constriction::symbol::huffman::{DecoderHuffmanTree, EncoderHuffmanTree};
use constriction::symbol::{QueueEncoder, ReadBitStream, StackCoder, WriteBitStream};
use constriction::{CoderError, DefaultEncoderFrontendError, Stack, UnwrapInfallible};
use hcommon::{gen_words, hexwords};
use vengine::{note, vcheck, vfail, CaseResult, Ctx, Src};

/// A sink that fails exactly the `fail_at`-th write (counting from 0) and works before and
/// after; reads pop.
#[derive(Clone, Debug)]
struct Flaky<W> {
    buf: Vec<W>,
    writes: usize,
    fail_at: usize,
}
impl<W> WriteWords<W> for Flaky<W> {
    type WriteError = u8;
    fn write(&mut self, w: W) -> Result<(), u8> {
        let k = self.writes;
        self.writes += 1;
        if k == self.fail_at {
            Err(0x77)
        } else {
            self.buf.push(w);
            Ok(())
        }
    }
}
impl<W> ReadWords<W, Stack> for Flaky<W> {
    type ReadError = core::convert::Infallible;
    fn read(&mut self) -> Result<Option<W>, Self::ReadError> {
        Ok(self.buf.pop())
    }
}

macro_rules! c09_cfg {
    ($name:ident, $label:literal, $zoo:ident, $W:ty, $S:ty) => {
        pub fn $name(src: &mut Src, ctx: &mut Ctx) -> CaseResult {
            use zoo::$zoo::{gen, Model, P};
            ctx.label(concat!("cfg:", $label));
            note!(ctx, "cfg {}", $label);
            let wbits = <$W>::BITS;
            let kind = src.below(5);
            let n_hist = src.below_usize(if ctx.tier == 0 { 40 } else { 400 });
            let bad_rate = 2 + src.below(6);
            let data: Vec<$W> = gen_words(src, wbits, 16).into_iter().map(|x| x as $W).collect();
            let n_models = 1 + src.below_usize(3);
            let mut models: Vec<Model> = Vec::new();
            for _ in 0..n_models {
                match gen(src, true, true) {
                    Some(m) => {
                        note!(ctx, "model: {}", m.name);
                        models.push(m);
                    }
                    None => ctx.label("rejected_valid"),
                }
            }
            if models.is_empty() {
                return Ok(());
            }
            // the history: (model index, symbol, is_bad)
            let mut hist: Vec<(usize, i64, bool)> = Vec::new();
            for i in 0..n_hist {
                let mi = i % models.len();
                let m = &models[mi];
                if src.below(bad_rate) == 0 && !m.outside.is_empty() {
                    hist.push((mi, m.outside[src.below_usize(m.outside.len())], true));
                } else {
                    hist.push((mi, m.support[src.below_usize(m.support.len())], false));
                }
            }
            let n_bad = hist.iter().filter(|h| h.2).count();
            let n_good = hist.len() - n_bad;
            if n_bad >= 1 && n_good >= 1 {
                ctx.nontrivial();
            }
            note!(ctx, "history {:?}", hist);
            match kind {
                // ---------------------------------------------------------------- ANS over Vec
                0 => {
                    ctx.label("coder:ans_vec");
                    let mut c = AnsCoder::<$W, $S>::new();
                    for &(mi, s, bad) in &hist {
                        if bad {
                            let before = c.clone().into_compressed().unwrap_infallible();
                            let r = c.encode_symbol(s, &models[mi]);
                            vcheck!(
                                matches!(r, Err(CoderError::Frontend(DefaultEncoderFrontendError::ImpossibleSymbol))),
                                "C09/impossible_symbol_not_rejected/ans",
                                "encoding symbol {} (outside the support) with {} returned {:?}",
                                s,
                                models[mi].name,
                                r
                            );
                            let after = c.clone().into_compressed().unwrap_infallible();
                            vcheck!(before == after, "C09/failed_encode_changed_coder/ans", "export {} -> {}", hexwords(&before), hexwords(&after));
                        } else {
                            let r = c.encode_symbol(s, &models[mi]);
                            vcheck!(r.is_ok(), "C09/valid_symbol_rejected/ans", "symbol {} of the support of {} -> {:?}", s, models[mi].name, r);
                        }
                    }
                    for &(mi, s, bad) in hist.iter().rev() {
                        if !bad {
                            let d = c.decode_symbol(&models[mi]).unwrap_infallible();
                            vcheck!(d == s, "C09/history_does_not_decode/ans", "decoded {} instead of {} ({})", d, s, models[mi].name);
                        }
                    }
                    vcheck!(c.is_empty(), "C09/history_does_not_decode/ans", "coder not empty after popping the whole valid history");
                }
                // ---------------------------------------------------------------- range encoder
                1 => {
                    ctx.label("coder:range");
                    let mut e = RangeEncoder::<$W, $S>::new();
                    for &(mi, s, bad) in &hist {
                        if bad {
                            let before = e.clone().into_raw_parts();
                            let r = e.encode_symbol(s, &models[mi]);
                            vcheck!(
                                matches!(r, Err(CoderError::Frontend(DefaultEncoderFrontendError::ImpossibleSymbol))),
                                "C09/impossible_symbol_not_rejected/range",
                                "encoding symbol {} (outside the support) with {} returned {:?}",
                                s,
                                models[mi].name,
                                r
                            );
                            let after = e.clone().into_raw_parts();
                            vcheck!(before == after, "C09/failed_encode_changed_coder/range", "raw parts {:?} -> {:?}", before, after);
                        } else {
                            let r = e.encode_symbol(s, &models[mi]);
                            vcheck!(r.is_ok(), "C09/valid_symbol_rejected/range", "symbol {} of the support of {} -> {:?}", s, models[mi].name, r);
                        }
                    }
                    let mut d = match e.into_decoder() {
                        Ok(d) => d,
                        Err(()) => vfail!("C09/history_does_not_decode/range", "into_decoder failed"),
                    };
                    for &(mi, s, bad) in hist.iter() {
                        if !bad {
                            let r = d.decode_symbol(&models[mi]);
                            vcheck!(matches!(r, Ok(x) if x == s), "C09/history_does_not_decode/range", "decoded {:?} instead of {} ({})", r, s, models[mi].name);
                        }
                    }
                }
                // ---------------------------------------------------------------- chain coder
                2 => {
                    ctx.label("coder:chain");
                    let mut full = data.clone();
                    for _ in 0..(<$S>::BITS / wbits) {
                        full.push(src.wordish(wbits) as $W);
                    }
                    let mut c = match ChainCoder::<$W, $S, Vec<$W>, Vec<$W>, P>::from_binary(full.clone()) {
                        Ok(c) => c,
                        Err(_) => return Ok(()),
                    };
                    // decode with the good part of the history, trying the bad symbols in between
                    let mut got: Vec<(usize, i64)> = Vec::new();
                    for &(mi, s, bad) in &hist {
                        if bad {
                            let before = (c.clone().into_remainders().unwrap_infallible(), c.state());
                            let r = c.encode_symbol(s, &models[mi]);
                            vcheck!(
                                matches!(r, Err(CoderError::Frontend(constriction::stream::chain::EncoderFrontendError::ImpossibleSymbol))),
                                "C09/impossible_symbol_not_rejected/chain",
                                "encoding symbol {} (outside the support) with {} returned {:?}",
                                s,
                                models[mi].name,
                                r
                            );
                            let after = (c.clone().into_remainders().unwrap_infallible(), c.state());
                            vcheck!(before == after, "C09/failed_encode_changed_coder/chain", "the chain coder changed");
                        } else {
                            match c.decode_symbol(&models[mi]) {
                                Ok(d) => got.push((mi, d)),
                                Err(_) => break,
                            }
                        }
                    }
                    for &(mi, s) in got.iter().rev() {
                        let r = c.encode_symbol(s, &models[mi]);
                        vcheck!(r.is_ok(), "C09/history_does_not_decode/chain", "re-encoding {} -> {:?}", s, r);
                    }
                    match c.into_binary() {
                        Ok((rem, comp)) => {
                            let mut rec = rem;
                            rec.extend_from_slice(&comp);
                            vcheck!(rec == full, "C09/history_does_not_decode/chain", "data not restored: {} vs {}", hexwords(&rec), hexwords(&full));
                        }
                        Err(_) => vfail!("C09/history_does_not_decode/chain", "into_binary failed after re-encoding"),
                    }
                }
                // -------------------------------------------- ANS over a bounded / failing sink
                3 => {
                    ctx.label("coder:ans_bounded_cursor");
                    let cap = src.below_usize(8);
                    let fwd = AnsCoder::<$W, $S, _>::from_compressed(Cursor::new_at_write_beginning(vec![0 as $W; cap])).map_err(|_| vengine::Fail::new("harness/cursor", "empty cursor rejected"))?;
                    macro_rules! bounded_history {
                        ($c:expr, $copy:expr) => {{
                            let mut c = $c;
                    let mut stack: Vec<(usize, i64)> = Vec::new();
                    let mut failures = 0;
                    for &(mi, s, bad) in &hist {
                        if bad {
                            let r = c.encode_symbol(s, &models[mi]);
                            vcheck!(matches!(r, Err(CoderError::Frontend(DefaultEncoderFrontendError::ImpossibleSymbol))), "C09/impossible_symbol_not_rejected/ans", "bounded sink: symbol {} -> {:?}", s, r);
                            continue;
                        }
                        if stack.len() % 3 == 2 {
                            // a temporary view appends the state's words to the sink: on a sink that is (nearly) full this
                            // is a failed write like any other, and what was encoded before must still decode
                            let failed = c.get_compressed().is_err();
                            if failed {
                                failures += 1;
                                ctx.label("view_failed_on_full_sink");
                            }
                            let mut copy = $copy(&c);
                            for &(mj, t) in stack.iter().rev() {
                                let d = copy.decode_symbol(&models[mj]).unwrap_infallible();
                                vcheck!(d == t, if ctx.param == 8 { "C08/view_on_bounded_sink_changed_coder" } else { "C09/failed_write_corrupted_coder" }, "after get_compressed() on a bounded sink ({}), decoded {} instead of {}", if failed { "failed: sink full" } else { "succeeded" }, d, t);
                            }
                        }
                        match c.encode_symbol(s, &models[mi]) {
                            Ok(()) => stack.push((mi, s)),
                            Err(CoderError::Backend(_)) => {
                                failures += 1;
                                ctx.label("backend_write_failed");
                                // everything encoded before still decodes (on a copy) ...
                                let mut copy = $copy(&c);
                                for &(mj, t) in stack.iter().rev() {
                                    let d = copy.decode_symbol(&models[mj]).unwrap_infallible();
                                    vcheck!(d == t, "C09/failed_write_corrupted_coder", "after a failed write to a full sink, decoded {} instead of {}", d, t);
                                }
                                // ... and after popping a symbol, encoding continues
                                if let Some((mj, t)) = stack.pop() {
                                    let d = c.decode_symbol(&models[mj]).unwrap_infallible();
                                    vcheck!(d == t, "C09/failed_write_corrupted_coder", "pop after failed write returned {} instead of {}", d, t);
                                }
                            }
                            Err(e) => vfail!("C09/valid_symbol_rejected/ans", "{:?}", e),
                        }
                    }
                    for &(mj, t) in stack.iter().rev() {
                        let d = c.decode_symbol(&models[mj]).unwrap_infallible();
                        vcheck!(d == t, "C09/failed_write_corrupted_coder", "final drain decoded {} instead of {} ({} failed writes)", d, t, failures);
                    }
                    if failures > 0 {
                        ctx.nontrivial();
                    }
                                        }};
                    }
                    if hist.len() % 2 == 0 {
                        bounded_history!(fwd, |c: &AnsCoder<$W, $S, Cursor<$W, Vec<$W>>>| AnsCoder::<$W, $S, _>::from_raw_parts(c.bulk().cloned(), c.state()))
                    } else {
                        // the same capacity as a reversed cursor (writes run towards index 0)
                        ctx.label("coder:ans_bounded_reversed_cursor");
                        bounded_history!(fwd.into_reversed(), |c: &AnsCoder<$W, $S, Reverse<Cursor<$W, Vec<$W>>>>| AnsCoder::<$W, $S, _>::from_raw_parts(Reverse(c.bulk().0.cloned()), c.state()))
                    }
                }
                _ => {
                    ctx.label("coder:ans_failing_sink");
                    let fail_at = src.below_usize(6);
                    let mut c = AnsCoder::<$W, $S, Flaky<$W>>::from_raw_parts(Flaky { buf: Vec::new(), writes: 0, fail_at }, 0 as $S);
                    let mut stack: Vec<(usize, i64)> = Vec::new();
                    let mut failures = 0;
                    for &(mi, s, bad) in &hist {
                        if bad {
                            let r = c.encode_symbol(s, &models[mi]);
                            vcheck!(matches!(r, Err(CoderError::Frontend(DefaultEncoderFrontendError::ImpossibleSymbol))), "C09/impossible_symbol_not_rejected/ans", "failing sink: symbol {} -> {:?}", s, r);
                            continue;
                        }
                        match c.encode_symbol(s, &models[mi]) {
                            Ok(()) => stack.push((mi, s)),
                            Err(CoderError::Backend(0x77)) => {
                                failures += 1;
                                ctx.label("backend_write_failed");
                                // the failed symbol was not pushed; everything before must still be there
                            }
                            Err(e) => vfail!("C09/valid_symbol_rejected/ans", "{:?}", e),
                        }
                    }
                    for &(mj, t) in stack.iter().rev() {
                        let d = c.decode_symbol(&models[mj]).unwrap_infallible();
                        vcheck!(d == t, "C09/failed_write_corrupted_coder", "after a failed write (write number {}), decoded {} instead of {}", fail_at, d, t);
                    }
                    if failures > 0 {
                        ctx.nontrivial();
                    }
                }
            }
            Ok(())
        }
    };
}

c09_cfg!(c09_u8_8_w16, "p8/u16/u32", z_u8_8, u16, u32);
c09_cfg!(c09_u8_8_w8, "p8/u8/u16", z_u8_8, u8, u16);
c09_cfg!(c09_u16_12, "p12/u16/u32", z_u16_12, u16, u32);
c09_cfg!(c09_u16_16, "p16/u16/u32", z_u16_16, u16, u32);
c09_cfg!(c09_u16_12_w32, "p12/u32/u64", z_u16_12, u32, u64);
c09_cfg!(c09_u32_24, "p24/u32/u64", z_u32_24, u32, u64);
c09_cfg!(c09_u32_32, "p32/u32/u64", z_u32_32, u32, u64);
// states wider than two words (4 and 4 words): more than one word of the state can be in flight when a sink fills up
c09_cfg!(c09_u8_8_s32, "p8/u8/u32", z_u8_8, u8, u32);
c09_cfg!(c09_u16_12_s64, "p12/u16/u64", z_u16_12, u16, u64);

/// Huffman codebook with the bit-level coders
fn c09_huffman(src: &mut Src, ctx: &mut Ctx) -> CaseResult {
    ctx.label("coder:bit_level_huffman");
    let n = src.range_usize(1, 12);
    let w: Vec<u32> = (0..n).map(|_| src.below(20) as u32).collect();
    let enc = EncoderHuffmanTree::from_probabilities::<u32, _>(&w);
    let dec = DecoderHuffmanTree::from_probabilities::<u32, _>(&w);
    let k = src.below_usize(30);
    let hist: Vec<(usize, bool)> = (0..k)
        .map(|_| {
            if src.ratio(1, 4) {
                (match src.below(4) { 0 => n, 1 => n + 1, 2 => usize::MAX, _ => n + src.below_usize(1000) }, true)
            } else {
                (src.below_usize(n), false)
            }
        })
        .collect();
    note!(ctx, "weights {:?} history {:?}", w, hist);
    if hist.iter().any(|h| h.1) && hist.iter().any(|h| !h.1) {
        ctx.nontrivial();
    }
    if src.bool() {
        let mut c = StackCoder::<u32>::new();
        for &(s, bad) in &hist {
            let before = c.len();
            let r = c.encode_symbol(s, &enc);
            if bad {
                vcheck!(matches!(r, Err(CoderError::Frontend(DefaultEncoderFrontendError::ImpossibleSymbol))), "C09/impossible_symbol_not_rejected/huffman", "symbol {} of {} -> {:?}", s, n, r);
                vcheck!(c.len() == before, "C09/failed_encode_changed_coder/bit_stack", "len {} -> {}", before, c.len());
            } else {
                vcheck!(r.is_ok(), "C09/valid_symbol_rejected/huffman", "{:?}", r);
            }
        }
        for &(s, bad) in hist.iter().rev() {
            if !bad {
                let d = c.decode_symbol(&dec);
                vcheck!(matches!(d, Ok(x) if x == s), "C09/history_does_not_decode/bit_stack", "decoded {:?} instead of {}", d, s);
            }
        }
        vcheck!(c.is_empty(), "C09/history_does_not_decode/bit_stack", "stack not empty at the end");
    } else {
        let mut c = QueueEncoder::<u32>::new();
        for &(s, bad) in &hist {
            let before = c.len();
            let r = c.encode_symbol(s, &enc);
            if bad {
                vcheck!(matches!(r, Err(CoderError::Frontend(DefaultEncoderFrontendError::ImpossibleSymbol))), "C09/impossible_symbol_not_rejected/huffman", "symbol {} of {} -> {:?}", s, n, r);
                vcheck!(c.len() == before, "C09/failed_encode_changed_coder/bit_queue", "len {} -> {}", before, c.len());
            } else {
                vcheck!(r.is_ok(), "C09/valid_symbol_rejected/huffman", "{:?}", r);
            }
        }
        let mut d = c.into_decoder().unwrap_infallible();
        for &(s, bad) in hist.iter() {
            if !bad {
                let r = d.decode_symbol(&dec);
                vcheck!(matches!(r, Ok(x) if x == s), "C09/history_does_not_decode/bit_queue", "decoded {:?} instead of {}", r, s);
            }
        }
    }
    Ok(())
}

/// With `param == 8` the same histories serve C08 (a temporary view, obtained or refused, leaves the coder
/// untouched): only the assertion about views is judged, everything else is another property's business.
pub fn c09_impossible(src: &mut Src, ctx: &mut Ctx) -> CaseResult {
    let r = c09_dispatch(src, ctx);
    if ctx.param == 8 {
        if let Err(f) = &r {
            if !f.sig.starts_with("C08/") {
                ctx.discard("foreign_property_violated");
                return Ok(());
            }
        }
    }
    r
}

fn c09_dispatch(src: &mut Src, ctx: &mut Ctx) -> CaseResult {
    match src.below(10) {
        8 => c09_u8_8_s32(src, ctx),
        9 => c09_u16_12_s64(src, ctx),
        0 => c09_u8_8_w16(src, ctx),
        1 => c09_u8_8_w8(src, ctx),
        2 => c09_u16_12(src, ctx),
        3 => c09_u16_16(src, ctx),
        4 => c09_u16_12_w32(src, ctx),
        5 => c09_u32_24(src, ctx),
        6 => c09_u32_32(src, ctx),
        _ => c09_huffman(src, ctx),
    }
}
