//! `vengine` — the property-independent part of the verification machinery.
//!
//! It knows nothing about `constriction` (and is therefore never rebuilt when `/repo`
//! changes).  It provides
//!
//! * [`Src`]: the data provider that turns a byte string (a *case*) into structured
//!   choices (built on `arbitrary::Unstructured`; an exhausted buffer yields minimal
//!   values, so every byte string and every truncation of one is a valid case);
//! * [`Ctx`]: per-case bookkeeping (labels, non-triviality, canonical hash, trace);
//! * [`Target`]: a named `fn(&mut Src, &mut Ctx) -> Result<(), Fail>` plus its panic policy;
//! * panic capture and classification ([`catch`], [`PanicInfo`]);
//! * the seeded case generator ([`gen_case`]), the byte-level shrinker ([`shrink`]);
//! * [`main`]: the command line shared by all harness binaries
//!   (`list | worker | replay | shrink`), used by the Python driver `/verif/check`.

pub mod json;
pub mod panics;
pub mod rng;
pub mod shrink;
pub mod src;
pub mod worker;

pub use panics::{catch, PanicClass, PanicInfo, PanicOrigin};
pub use src::Src;
pub use worker::main;

use std::collections::BTreeMap;

/// A violation of the property under test.
#[derive(Debug, Clone)]
pub struct Fail {
    /// Structural signature: stable under shrinking, narrow enough that a different
    /// violation of the same property gets a different signature.
    pub sig: String,
    /// Human readable details (values, positions).
    pub detail: String,
}

impl Fail {
    pub fn new(sig: impl Into<String>, detail: impl Into<String>) -> Self {
        Fail {
            sig: sig.into(),
            detail: detail.into(),
        }
    }
}

pub type CaseResult = Result<(), Fail>;

/// `vfail!("sig", "fmt", args..)` returns a violation from the enclosing function.
#[macro_export]
macro_rules! vfail {
    ($sig:expr, $($fmt:tt)+) => {
        return Err($crate::Fail::new($sig, format!($($fmt)+)))
    };
}

/// `vcheck!(cond, "sig", "fmt", args..)`: violation unless `cond`.
#[macro_export]
macro_rules! vcheck {
    ($cond:expr, $sig:expr, $($fmt:tt)+) => {
        if !($cond) {
            return Err($crate::Fail::new($sig, format!($($fmt)+)));
        }
    };
}

/// `vassume!(ctx, cond, "why")`: the case left the domain of the property being checked
/// (typically: an operation that *another* property guarantees failed). The case is
/// discarded and counted, never reported as a violation of the running property.
#[macro_export]
macro_rules! vassume {
    ($ctx:expr, $cond:expr, $why:expr) => {
        if !($cond) {
            $ctx.discard($why);
            return Ok(());
        }
    };
}

/// `vcheck_if!(active, ctx, cond, "sig", "fmt", args..)`: a violation only if `active` (the
/// assertion belongs to the property selected by `ctx.param`), otherwise a `vassume!`.
#[macro_export]
macro_rules! vcheck_if {
    ($active:expr, $ctx:expr, $cond:expr, $sig:expr, $($fmt:tt)+) => {
        if !($cond) {
            if $active {
                return Err($crate::Fail::new($sig, format!($($fmt)+)));
            } else {
                $ctx.discard("foreign_property_violated");
                return Ok(());
            }
        }
    };
}

/// `vfail_if!(active, ctx, "sig", "fmt", args..)`: unconditional variant of [`vcheck_if!`].
#[macro_export]
macro_rules! vfail_if {
    ($active:expr, $ctx:expr, $sig:expr, $($fmt:tt)+) => {{
        if $active {
            return Err($crate::Fail::new($sig, format!($($fmt)+)));
        } else {
            $ctx.discard("foreign_property_violated");
            return Ok(());
        }
    }};
}

/// `note!(ctx, "fmt", args..)`: append a line to the structured rendering of the case
/// (only evaluated when tracing, i.e. for samples and replays).
#[macro_export]
macro_rules! note {
    ($ctx:expr, $($fmt:tt)+) => {
        if $ctx.tracing {
            let __line = format!($($fmt)+);
            if $ctx.echo {
                eprintln!("[case] {}", __line);
            }
            $ctx.trace.push(__line);
        }
    };
}

/// Per-case bookkeeping.
pub struct Ctx {
    /// Labels observed in this case (classification of what the generator reached).
    pub labels: BTreeMap<&'static str, u32>,
    /// Set by the target when the case satisfies the property's non-triviality rule.
    pub nontrivial: bool,
    /// Set by the target when the case is outside the property's domain.
    pub discard: Option<&'static str>,
    pub tracing: bool,
    /// print trace lines to stderr as they are produced (replay mode: survives an abort)
    pub echo: bool,
    pub trace: Vec<String>,
    /// Size hint: 0 = quick, 1 = thorough (targets may use larger structures).
    pub tier: u8,
    /// Free-form numeric parameter handed down from the plan (`--param`).
    pub param: u64,
    /// Number of cases *excluded or compared modulo a known finding*.
    pub excluded_known: u32,
    /// C20 mode (see [`UB_ONLY`])
    pub ubonly: bool,
}

impl Ctx {
    pub fn new(tracing: bool, tier: u8, param: u64) -> Self {
        Ctx {
            labels: BTreeMap::new(),
            nontrivial: false,
            discard: None,
            tracing,
            echo: false,
            trace: Vec::new(),
            tier,
            param,
            excluded_known: 0,
            ubonly: false,
        }
    }
    #[inline]
    pub fn label(&mut self, l: &'static str) {
        *self.labels.entry(l).or_insert(0) += 1;
    }
    #[inline]
    pub fn label_if(&mut self, cond: bool, l: &'static str) {
        if cond {
            self.label(l)
        }
    }
    #[inline]
    pub fn nontrivial(&mut self) {
        self.nontrivial = true;
    }
    pub fn discard(&mut self, why: &'static str) {
        self.discard = Some(why);
    }
}

/// What a panic raised from the code under test means for a target.
#[derive(Clone, Copy, Debug, PartialEq, Eq)]
pub enum PanicPolicy {
    /// The property says the operation succeeds: every panic that originates in the code
    /// under test is a violation.
    AllViolations,
    /// Clean panics (assert!, expect, checked index, explicit panic!) are an accepted
    /// outcome (C19/C20 style); only the memory-safety / wrap-arithmetic class counts.
    CleanAllowed,
}

pub struct Target {
    pub name: &'static str,
    /// Properties this target can be run for (informational).
    pub props: &'static str,
    pub policy: PanicPolicy,
    /// Maximum generated case length in bytes.
    pub max_len: usize,
    pub run: fn(&mut Src, &mut Ctx) -> CaseResult,
}

/// Outcome of executing one case, after panic classification.
#[derive(Debug, Clone)]
pub enum Outcome {
    Pass,
    Discard(String),
    Violation(Fail),
    /// A panic inside the harness itself: infrastructure error, never a violation.
    HarnessBug(String),
}

pub struct Executed {
    pub outcome: Outcome,
    pub labels: BTreeMap<&'static str, u32>,
    pub nontrivial: bool,
    pub hash: u64,
    pub consumed: usize,
    pub trace: Vec<String>,
    pub excluded_known: u32,
}

/// Runs one case through a target and classifies the result.
pub fn execute(t: &Target, bytes: &[u8], tracing: bool, tier: u8, param: u64) -> Executed {
    execute_opts(t, bytes, tracing, false, tier, param)
}

/// C20 mode: any target can be run with `--ubonly`. Then only the memory-safety /
/// wrap-arithmetic class of panics counts; oracle failures and clean panics of the target's
/// own property are ignored (they are that property's business).
pub static UB_ONLY: std::sync::atomic::AtomicBool = std::sync::atomic::AtomicBool::new(false);

pub fn execute_opts(t: &Target, bytes: &[u8], tracing: bool, echo: bool, tier: u8, param: u64) -> Executed {
    let ubonly = UB_ONLY.load(std::sync::atomic::Ordering::Relaxed);
    let mut ctx = Ctx::new(tracing, tier, param);
    ctx.echo = echo;
    ctx.ubonly = ubonly;
    let mut src = Src::new(bytes);
    let res = {
        let ctx_ref = &mut ctx;
        let src_ref = &mut src;
        panics::catch(move || (t.run)(src_ref, ctx_ref))
    };
    let outcome = match res {
        Ok(Ok(())) => match ctx.discard {
            Some(why) => Outcome::Discard(why.to_string()),
            None => Outcome::Pass,
        },
        Ok(Err(fail)) => {
            if ubonly && !fail.sig.contains("panic/ub/") {
                ctx.labels.insert("oracle_failure_ignored_in_ub_only_mode", 1);
                Outcome::Pass
            } else {
                Outcome::Violation(fail)
            }
        }
        Err(p) => match p.origin {
            PanicOrigin::Harness => Outcome::HarnessBug(p.render()),
            PanicOrigin::Dependency => Outcome::Discard(format!("dep_panic:{}", p.file_short())),
            PanicOrigin::Repo | PanicOrigin::Std => {
                if p.class == PanicClass::Clean && (t.policy == PanicPolicy::CleanAllowed || ubonly) {
                    ctx.labels.insert("clean_panic_accepted", 1);
                    Outcome::Pass
                } else {
                    Outcome::Violation(Fail::new(p.signature(), p.render()))
                }
            }
        },
    };
    Executed {
        outcome,
        labels: ctx.labels,
        nontrivial: ctx.nontrivial,
        hash: src.hash(),
        consumed: src.consumed(),
        trace: ctx.trace,
        excluded_known: ctx.excluded_known,
    }
}
