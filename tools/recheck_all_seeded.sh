#!/bin/bash
# Re-run, for every seeded change, the checks recorded in its verified.json against the current
# machinery (applies each patch to /repo and restores it; do not run anything else on /repo meanwhile).
cd "$(dirname "$0")/.."
out=seeded/SUMMARY.txt
: > $out.tmp
for d in seeded/*/; do
  name=$(basename $d)
  [ -f $d/verified.json ] || continue
  ids=$(python3 -c "
import json,sys
v=json.load(open('$d/verified.json'))
import re
print(' '.join(re.findall(r'\\bC[0-9][0-9]\\b', v['ran_checks'].split('patch.diff',1)[1])))")
  patch=$d/patch.diff
  line=$(tools/recheck_seeded.sh $name $ids 2>&1 | grep SUMMARY)
  echo "$name: $line" | tee -a $out.tmp
done
mv $out.tmp $out
