//! C01 — the ANS coder is a lossless stack under any history of pushes, pops and reloads.
//!
//! Generator: configuration row; start state (empty / imported compressed words /
//! imported raw binary words); up to ~60 operations from
//! {encode, decode, batch encode (6 forms, with injected iterator errors), batch decode
//! (3 forms), re-import (3 ways), read-only decoder views over 7 alternative backends,
//! clone}.  Models are harness tables whose precision changes from symbol to symbol.
//!
//! Oracle: a `Vec<(symbol, model)>` of pending pushes plus the exported words recorded
//! before each push.  Every decode must return the top entry's symbol and restore the
//! export recorded before that entry was pushed; every batch form must leave the coder
//! exactly where the per-symbol loop leaves a clone; at the end the export equals the one
//! taken before the first push.

use constriction::backends::Cursor;
use constriction::stream::stack::AnsCoder;
use constriction::stream::{Code, Decode, Encode, TryCodingError};
use core::convert::Infallible;
use hcommon::{gen_tab, gen_words, hexwords, Tab};
use vengine::{note, vcheck, vfail, CaseResult, Ctx, Src};

pub struct Entry {
    pub sym: usize,
    pub tab: Tab,
    pub epoch: u32,
}

#[derive(Debug, PartialEq, Eq, Clone, Copy)]
struct Inj(u32);

/// Consumes a batch-decoding iterator in one of three ways that the `Iterator` contract makes equivalent: `collect`; a
/// `next()` loop that also holds `size_hint` against the number of items still to come; or `nth(j)` - which has to
/// decode and drop j symbols - followed by `next()`. The dropped positions are filled in from `expect` (they cannot be
/// observed; that they were really decoded shows in the coder's state, which the caller compares with the per-symbol loop).
pub(crate) fn consume_batch<E: core::fmt::Debug>(style: usize, expect: &[usize], mut it: impl Iterator<Item = Result<usize, E>>) -> Result<Vec<usize>, String> {
    let k = expect.len();
    match style {
        0 => it.collect::<Result<Vec<_>, _>>().map_err(|e| format!("{:?}", e)),
        1 => {
            let mut out = Vec::new();
            loop {
                let left = k - out.len().min(k);
                let (lo, hi) = it.size_hint();
                if lo > left || hi.map_or(false, |h| h < left) {
                    return Err(format!("size_hint() = ({}, {:?}) with {} items still to come", lo, hi, left));
                }
                match it.next() {
                    Some(Ok(s)) => out.push(s),
                    Some(Err(e)) => return Err(format!("{:?}", e)),
                    None => return Ok(out),
                }
                if out.len() > k + 1 {
                    return Err("the iterator yields more items than models were supplied".into());
                }
            }
        }
        _ => {
            let j = (k - 1) / 2;
            let mut out: Vec<usize> = expect[..j].to_vec();
            match it.nth(j) {
                Some(Ok(s)) => out.push(s),
                Some(Err(e)) => return Err(format!("{:?}", e)),
                None => return Err(format!("nth({}) returned None with {} models supplied", j, k)),
            }
            for r in it {
                match r {
                    Ok(s) => out.push(s),
                    Err(e) => return Err(format!("{:?}", e)),
                }
            }
            Ok(out)
        }
    }
}

macro_rules! precs {
    ([$(($Pr:ty, $P:literal)),+]) => { [$($P as u32),+] };
}

/// decode all pending entries (top first) from decoder `$d` and compare
macro_rules! drain_check {
    ($d:expr, $pending:expr, $plist:tt, $sig:expr) => {{
        let mut __d = $d;
        for (depth, e) in $pending.iter().rev().enumerate() {
            let r = with_prec!(e.tab.sel, $plist, |M| __d.decode_symbol(M::new(&e.tab)).ok());
            vcheck!(
                r == Some(e.sym),
                $sig,
                "view decoded {:?} instead of {} at depth {} ({})",
                r,
                e.sym,
                depth,
                e.tab.render()
            );
        }
    }};
}

macro_rules! c01_row {
    ($name:ident, $label:literal, $W:ty, $S:ty, $plist:tt) => {
        pub fn $name(src: &mut Src, ctx: &mut Ctx) -> CaseResult {
            type Coder = AnsCoder<$W, $S, Vec<$W>>;
            const PRECS: &[u32] = &precs!($plist);
            ctx.label(concat!("cfg:", $label));
            let wbits = <$W>::BITS;
            let threshold: $S = (1 as $S) << (<$S>::BITS - <$W>::BITS);
            let export = |c: &Coder| -> Vec<$W> {
                match c.clone().into_compressed() {
                    Ok(v) => v,
                    Err(e) => match e {},
                }
            };

            // ---- start state -------------------------------------------------------
            let start_kind = src.below(3);
            let data: Vec<$W> = gen_words(src, wbits, 6).into_iter().map(|x| x as $W).collect();
            let mut coder: Coder = match start_kind {
                0 => {
                    ctx.label("start:new");
                    Coder::new()
                }
                1 => {
                    ctx.label("start:from_compressed");
                    let mut d = data.clone();
                    if let Some(l) = d.last_mut() {
                        if *l == 0 {
                            *l = 1;
                        }
                    }
                    note!(ctx, "start from_compressed({})", hexwords(&d));
                    match Coder::from_compressed(d.clone()) {
                        Ok(c) => {
                            let back = export(&c);
                            vcheck!(
                                back == d,
                                "C01/import_export_differs",
                                "from_compressed({}) exports {}",
                                hexwords(&d),
                                hexwords(&back)
                            );
                            c
                        }
                        Err(_) => vfail!(
                            "C01/import_rejected",
                            "from_compressed rejected words with non-zero last word: {}",
                            hexwords(&d)
                        ),
                    }
                }
                _ => {
                    ctx.label("start:from_binary");
                    note!(ctx, "start from_binary({})", hexwords(&data));
                    match Coder::from_binary(data.clone()) {
                        Ok(c) => c,
                        Err(e) => match e {},
                    }
                }
            };
            let base = export(&coder);
            let mut pending: Vec<Entry> = Vec::new();
            let mut snaps: Vec<Vec<$W>> = Vec::new();
            let mut epoch: u32 = 0;
            let mut cur_sel: u8 = src.below(PRECS.len() as u64) as u8;
            let max_ops = if ctx.tier == 0 { 60 } else { 200 };
            let mut ops = 0;

            macro_rules! pick_sel {
                () => {{
                    if src.ratio(1, 3) {
                        let s = src.below(PRECS.len() as u64) as u8;
                        if s != cur_sel {
                            ctx.label("precision_changed");
                        }
                        cur_sel = s;
                    }
                    cur_sel
                }};
            }
            macro_rules! label_sym {
                ($tab:expr, $sym:expr) => {{
                    let t: &Tab = $tab;
                    let p = t.prob($sym);
                    if p == 1 {
                        ctx.label("prob_1_quantum");
                    }
                    if p == (1u64 << t.prec) - 1 {
                        ctx.label("prob_max");
                    }
                }};
            }

            while ops < max_ops && !src.is_empty() {
                ops += 1;
                let op = src.weighted(&[40, 28, 8, 8, 5, 6, 3]);
                match op {
                    // ---- single encode --------------------------------------------------
                    0 => {
                        let sel = pick_sel!();
                        let tab = gen_tab(src, PRECS[sel as usize], sel, 8);
                        let sym = src.below_usize(tab.n());
                        note!(ctx, "encode sym={} {}", sym, tab.render());
                        label_sym!(&tab, sym);
                        let len_before = coder.bulk().len();
                        if coder.state() < threshold {
                            ctx.label("small_state_at_encode");
                        }
                        snaps.push(export(&coder));
                        let e0 = epoch;
                        let r = with_prec!(tab.sel, $plist, |M| coder.encode_symbol(sym, M::new(&tab)));
                        vcheck!(r.is_ok(), "C01/encode_failed", "encode_symbol({}, {}) -> {:?}", sym, tab.render(), r);
                        if coder.bulk().len() > len_before {
                            ctx.label("flush");
                            epoch += 1;
                        }
                        pending.push(Entry { sym, tab, epoch: e0 });
                    }
                    // ---- single decode --------------------------------------------------
                    1 => {
                        if let Some(e) = pending.pop() {
                            let len_before = coder.bulk().len();
                            let r = with_prec!(e.tab.sel, $plist, |M| coder.decode_symbol(M::new(&e.tab)));
                            note!(ctx, "decode -> {:?} (expect {})", r, e.sym);
                            match r {
                                Ok(s) => vcheck!(
                                    s == e.sym,
                                    "C01/decode_mismatch",
                                    "decoded {} but most recent pending push was {} ({})",
                                    s,
                                    e.sym,
                                    e.tab.render()
                                ),
                                Err(err) => vfail!("C01/decode_error", "decode_symbol -> {:?}", err),
                            }
                            if coder.bulk().len() < len_before {
                                ctx.label("refill");
                            }
                            let snap = snaps.pop().expect("harness: snaps/pending out of sync");
                            let now = export(&coder);
                            vcheck!(
                                now == snap,
                                "C01/export_not_restored_after_pop",
                                "after popping, export is {} but was {} before the push",
                                hexwords(&now),
                                hexwords(&snap)
                            );
                            if epoch > e.epoch {
                                ctx.nontrivial();
                            }
                        }
                    }
                    // ---- batch encode ---------------------------------------------------
                    2 => {
                        let sel = pick_sel!();
                        let form = src.below(6);
                        let k = src.range_usize(1, 6);
                        let iid = form == 2 || form == 3;
                        let tabs: Vec<Tab> = if iid {
                            let t = gen_tab(src, PRECS[sel as usize], sel, 8);
                            vec![t; k]
                        } else {
                            (0..k).map(|_| gen_tab(src, PRECS[sel as usize], sel, 8)).collect()
                        };
                        let syms: Vec<usize> = tabs.iter().map(|t| src.below_usize(t.n())).collect();
                        let reverse = form == 1 || form == 3 || form == 5;
                        let inject: Option<usize> = if form >= 4 && src.bool() { Some(src.below_usize(k)) } else { None };
                        let order: Vec<usize> = if reverse { (0..k).rev().collect() } else { (0..k).collect() };
                        // items processed before the injected error (in processing order)
                        let processed: Vec<usize> = match inject {
                            Some(j) => order.iter().cloned().take_while(|&i| i != j).collect(),
                            None => order.clone(),
                        };
                        ctx.label(match form {
                            0 => "batch:encode_symbols",
                            1 => "batch:encode_symbols_reverse",
                            2 => "batch:encode_iid_symbols",
                            3 => "batch:encode_iid_symbols_reverse",
                            4 => "batch:try_encode_symbols",
                            _ => "batch:try_encode_symbols_reverse",
                        });
                        note!(ctx, "batch encode form={} syms={:?} inject={:?} P={}", form, syms, inject, PRECS[sel as usize]);
                        // reference: per-symbol loop on a clone
                        let mut twin = coder.clone();
                        let mut new_snaps = Vec::new();
                        let mut flushed = false;
                        for &i in &processed {
                            new_snaps.push(export(&twin));
                            let lb = twin.bulk().len();
                            let r = with_prec!(sel, $plist, |M| twin.encode_symbol(syms[i], M::new(&tabs[i])));
                            vcheck!(r.is_ok(), "C01/encode_failed", "encode_symbol -> {:?}", r);
                            flushed |= twin.bulk().len() > lb;
                            label_sym!(&tabs[i], syms[i]);
                        }
                        let ok: Result<(), String> = with_prec!(sel, $plist, |M| {
                            match form {
                                0 => coder
                                    .encode_symbols((0..k).map(|i| (syms[i], M::new(&tabs[i]))))
                                    .map_err(|e| format!("{:?}", e)),
                                1 => coder
                                    .encode_symbols_reverse((0..k).map(|i| (syms[i], M::new(&tabs[i]))))
                                    .map_err(|e| format!("{:?}", e)),
                                2 => coder
                                    .encode_iid_symbols(syms.iter(), M::new(&tabs[0]))
                                    .map_err(|e| format!("{:?}", e)),
                                3 => coder
                                    .encode_iid_symbols_reverse(syms.iter(), M::new(&tabs[0]))
                                    .map_err(|e| format!("{:?}", e)),
                                4 | _ => {
                                    let items = (0..k).map(|i| {
                                        if Some(i) == inject {
                                            Err(Inj(i as u32))
                                        } else {
                                            Ok((syms[i], M::new(&tabs[i])))
                                        }
                                    });
                                    let r = if form == 4 {
                                        coder.try_encode_symbols(items)
                                    } else {
                                        coder.try_encode_symbols_reverse(items)
                                    };
                                    match (r, inject) {
                                        (Ok(()), None) => Ok(()),
                                        (Err(TryCodingError::InvalidEntropyModel(Inj(j))), Some(i)) if j as usize == i => Ok(()),
                                        (other, _) => Err(format!("{:?} with inject={:?}", other, inject)),
                                    }
                                }
                            }
                        });
                        if let Err(msg) = ok {
                            vfail!("C01/batch_encode_result", "form {} returned {}", form, msg);
                        }
                        vcheck!(
                            coder.state() == twin.state() && coder.bulk() == twin.bulk(),
                            "C01/batch_encode_differs_from_loop",
                            "form {}: batch left state {:x} bulk {}, per-symbol loop left state {:x} bulk {}",
                            form,
                            coder.state(),
                            hexwords(coder.bulk()),
                            twin.state(),
                            hexwords(twin.bulk())
                        );
                        let e0 = epoch;
                        if flushed {
                            ctx.label("flush");
                            epoch += 1;
                        }
                        for (&i, snap) in processed.iter().zip(new_snaps) {
                            snaps.push(snap);
                            pending.push(Entry { sym: syms[i], tab: tabs[i].clone(), epoch: e0 });
                        }
                    }
                    // ---- batch decode ---------------------------------------------------
                    3 => {
                        if pending.is_empty() {
                            continue;
                        }
                        let top_sel = pending[pending.len() - 1].tab.sel;
                        let run_sel = pending.iter().rev().take_while(|e| e.tab.sel == top_sel).count();
                        let run_tab = pending
                            .iter()
                            .rev()
                            .take_while(|e| e.tab == pending[pending.len() - 1].tab)
                            .count();
                        let form = src.below(3);
                        let k = if form == 2 { src.range_usize(1, run_tab.min(6)) } else { src.range_usize(1, run_sel.min(6)) };
                        let inject: Option<usize> = if form == 1 && src.bool() { Some(src.below_usize(k + 1)) } else { None };
                        ctx.label(match form {
                            0 => "batch:decode_symbols",
                            1 => "batch:try_decode_symbols",
                            _ => "batch:decode_iid_symbols",
                        });
                        let n = pending.len();
                        let expect: Vec<usize> = (0..k).map(|i| pending[n - 1 - i].sym).collect();
                        note!(ctx, "batch decode form={} k={} inject={:?} expect={:?}", form, k, inject, expect);
                        let mut twin = coder.clone();
                        for i in 0..k {
                            let e = &pending[n - 1 - i];
                            let _ = with_prec!(top_sel, $plist, |M| twin.decode_symbol(M::new(&e.tab)).ok());
                        }
                        let len_before = coder.bulk().len();
                        let got: Result<Vec<usize>, String> = with_prec!(top_sel, $plist, |M| {
                            match form {
                                0 => consume_batch((k + n) % 3, &expect, coder.decode_symbols((0..k).map(|i| M::new(&pending[n - 1 - i].tab)))),
                                1 => {
                                    // iterator of k (+1 injected) items
                                    let total = k + inject.is_some() as usize;
                                    let mut real = 0usize;
                                    let mut items: Vec<Result<M, Inj>> = Vec::new();
                                    for pos in 0..total {
                                        if Some(pos) == inject {
                                            items.push(Err(Inj(pos as u32)));
                                        } else {
                                            items.push(Ok(M::new(&pending[n - 1 - real].tab)));
                                            real += 1;
                                        }
                                    }
                                    let mut out = Vec::new();
                                    let mut bad = None;
                                    for (pos, r) in coder.try_decode_symbols(items).enumerate() {
                                        match r {
                                            Ok(s) => out.push(s),
                                            Err(TryCodingError::InvalidEntropyModel(Inj(j))) if Some(j as usize) == inject && pos == j as usize => {}
                                            Err(e) => bad = Some(format!("{:?} at {}", e, pos)),
                                        }
                                    }
                                    match bad {
                                        Some(b) => Err(b),
                                        None => Ok(out),
                                    }
                                }
                                _ => consume_batch((k + n) % 3, &expect, coder.decode_iid_symbols(k, M::new(&pending[n - 1].tab))),
                            }
                        });
                        match got {
                            Ok(g) => vcheck!(
                                g == expect,
                                "C01/batch_decode_mismatch",
                                "form {} decoded {:?}, pending pushes (top first) were {:?}",
                                form,
                                g,
                                expect
                            ),
                            Err(m) => vfail!("C01/batch_decode_result", "form {} -> {}", form, m),
                        }
                        vcheck!(
                            coder.state() == twin.state() && coder.bulk() == twin.bulk(),
                            "C01/batch_decode_differs_from_loop",
                            "form {}: batch left state {:x}, per-symbol loop left {:x}",
                            form,
                            coder.state(),
                            twin.state()
                        );
                        if coder.bulk().len() < len_before {
                            ctx.label("refill");
                        }
                        let mut last_snap = None;
                        for _ in 0..k {
                            let e = pending.pop().expect("harness");
                            if epoch > e.epoch {
                                ctx.nontrivial();
                            }
                            last_snap = snaps.pop();
                        }
                        let now = export(&coder);
                        vcheck!(
                            Some(&now) == last_snap.as_ref(),
                            "C01/export_not_restored_after_pop",
                            "after batch pop, export is {} but was {:?} before the pushes",
                            hexwords(&now),
                            last_snap.as_ref().map(|s| hexwords(s))
                        );
                    }
                    // ---- re-import --------------------------------------------------------
                    4 => {
                        let via = src.below(3);
                        let before = export(&coder);
                        note!(ctx, "reimport via {} words={}", via, hexwords(&before));
                        match via {
                            0 => {
                                ctx.label("reimport:into_from_compressed");
                                let v = match coder.into_compressed() {
                                    Ok(v) => v,
                                    Err(e) => match e {},
                                };
                                coder = match Coder::from_compressed(v) {
                                    Ok(c) => c,
                                    Err(v) => vfail!("C01/reimport_rejected", "from_compressed rejected its own export {}", hexwords(&v)),
                                };
                            }
                            1 => {
                                ctx.label("reimport:raw_parts");
                                let (bulk, state) = coder.into_raw_parts();
                                coder = Coder::from_raw_parts(bulk, state);
                            }
                            _ => {
                                ctx.label("reimport:vec_from");
                                let v: Vec<$W> = coder.into();
                                coder = match Coder::from_compressed(v) {
                                    Ok(c) => c,
                                    Err(v) => vfail!("C01/reimport_rejected", "from_compressed rejected its own export {}", hexwords(&v)),
                                };
                            }
                        }
                        let after = export(&coder);
                        vcheck!(
                            before == after,
                            "C01/reimport_changed_export",
                            "export {} became {} by re-import via {}",
                            hexwords(&before),
                            hexwords(&after),
                            via
                        );
                        epoch += 1;
                    }
                    // ---- decoder views over other backends ------------------------------
                    5 => {
                        let words = export(&coder);
                        let via = src.below(8);
                        note!(ctx, "view via {} over {}", via, hexwords(&words));
                        match via {
                            0 => {
                                ctx.label("view:as_decoder");
                                drain_check!(coder.as_decoder(), pending, $plist, "C01/view_as_decoder");
                            }
                            1 => {
                                ctx.label("view:into_decoder");
                                drain_check!(coder.clone().into_decoder(), pending, $plist, "C01/view_into_decoder");
                            }
                            2 => {
                                ctx.label("view:compressed_slice");
                                match AnsCoder::<$W, $S, _>::from_compressed_slice(&words[..]) {
                                    Ok(d) => drain_check!(d, pending, $plist, "C01/view_slice"),
                                    Err(()) => vfail!("C01/reimport_rejected", "from_compressed_slice rejected {}", hexwords(&words)),
                                }
                            }
                            3 => {
                                ctx.label("view:owned_cursor");
                                match AnsCoder::<$W, $S, _>::from_compressed(Cursor::new_at_write_end(words.clone())) {
                                    Ok(d) => match words.len() % 3 {
                                        0 => drain_check!(d, pending, $plist, "C01/view_owned_cursor"),
                                        1 => {
                                            // the same data read through the coder reversed in place (cursor not at the end of
                                            // its buffer: the import has already popped the head words)
                                            ctx.label("view:owned_cursor_into_reversed");
                                            drain_check!(d.into_reversed(), pending, $plist, "C01/view_cursor_into_reversed");
                                        }
                                        _ => {
                                            // pop half of the symbols, reverse in place, pop some more, reverse back, pop the rest
                                            ctx.label("view:owned_cursor_reversed_midway");
                                            let mut d = d;
                                            let n = pending.len();
                                            let (k1, k2) = (n / 2, n / 2 + (n - n / 2) / 2);
                                            for (depth, e) in pending.iter().rev().enumerate().take(k1) {
                                                let r = with_prec!(e.tab.sel, $plist, |M| d.decode_symbol(M::new(&e.tab)).ok());
                                                vcheck!(r == Some(e.sym), "C01/view_cursor_reversed_midway", "before reversing: decoded {:?} instead of {} at depth {}", r, e.sym, depth);
                                            }
                                            let mut d = d.into_reversed();
                                            for (depth, e) in pending.iter().rev().enumerate().skip(k1).take(k2 - k1) {
                                                let r = with_prec!(e.tab.sel, $plist, |M| d.decode_symbol(M::new(&e.tab)).ok());
                                                vcheck!(r == Some(e.sym), "C01/view_cursor_reversed_midway", "after into_reversed: decoded {:?} instead of {} at depth {}", r, e.sym, depth);
                                            }
                                            let mut d = d.into_reversed();
                                            for (depth, e) in pending.iter().rev().enumerate().skip(k2) {
                                                let r = with_prec!(e.tab.sel, $plist, |M| d.decode_symbol(M::new(&e.tab)).ok());
                                                vcheck!(r == Some(e.sym), "C01/view_cursor_reversed_midway", "after reversing back: decoded {:?} instead of {} at depth {}", r, e.sym, depth);
                                            }
                                        }
                                    },
                                    Err(_) => vfail!("C01/reimport_rejected", "from_compressed(Cursor) rejected {}", hexwords(&words)),
                                }
                            }
                            4 => {
                                ctx.label("view:reversed");
                                let rev: Vec<$W> = words.iter().rev().cloned().collect();
                                match AnsCoder::<$W, $S, _>::from_reversed_compressed(rev) {
                                    Ok(d) if words.len() % 2 == 1 && !pending.is_empty() => {
                                        // the reversed cursor is a bounded, writable backend: pop the upper half of the pending symbols,
                                        // push them back (into the words just freed), push them once more on top for as long as the
                                        // buffer takes them (a refused push must leave the coder as it was), pop those again, and
                                        // then everything that is pending
                                        ctx.label("view:reversed_cursor_push_pop");
                                        let mut d = d;
                                        let n = pending.len();
                                        let k = (n + 1) / 2;
                                        for (depth, e) in pending.iter().rev().enumerate().take(k) {
                                            let r = with_prec!(e.tab.sel, $plist, |M| d.decode_symbol(M::new(&e.tab)).ok());
                                            vcheck!(r == Some(e.sym), "C01/view_reversed_cursor_push_pop", "decoded {:?} instead of {} at depth {}", r, e.sym, depth);
                                        }
                                        for e in pending.iter().skip(n - k) {
                                            let r = with_prec!(e.tab.sel, $plist, |M| d.encode_symbol(e.sym, M::new(&e.tab)).is_ok());
                                            vcheck!(r, "C01/view_reversed_cursor_push_pop", "pushing {} back into the space its pop had freed was refused", e.sym);
                                        }
                                        let mut extra = 0;
                                        for e in pending.iter().skip(n - k) {
                                            let ok = with_prec!(e.tab.sel, $plist, |M| d.encode_symbol(e.sym, M::new(&e.tab)).is_ok());
                                            if !ok {
                                                ctx.label("view:reversed_cursor_full");
                                                break;
                                            }
                                            extra += 1;
                                        }
                                        for e in pending[n - k..n - k + extra].iter().rev() {
                                            let r = with_prec!(e.tab.sel, $plist, |M| d.decode_symbol(M::new(&e.tab)).ok());
                                            vcheck!(r == Some(e.sym), "C01/view_reversed_cursor_push_pop", "second copy: decoded {:?} instead of {}", r, e.sym);
                                        }
                                        drain_check!(d, pending, $plist, "C01/view_reversed_cursor_push_pop");
                                    }
                                    Ok(d) => drain_check!(d, pending, $plist, "C01/view_reversed"),
                                    Err(_) => vfail!("C01/reimport_rejected", "from_reversed_compressed rejected {}", hexwords(&words)),
                                }
                            }
                            5 => {
                                ctx.label("view:reversed_iter");
                                let it = words.iter().rev().map(|w| Ok::<$W, Infallible>(*w));
                                match AnsCoder::<$W, $S, _>::from_reversed_compressed_iter(it) {
                                    Ok(d) => drain_check!(d, pending, $plist, "C01/view_reversed_iter"),
                                    Err(_) => vfail!("C01/reimport_rejected", "from_reversed_compressed_iter rejected {}", hexwords(&words)),
                                }
                            }
                            6 => {
                                ctx.label("view:as_seekable_decoder");
                                drain_check!(coder.as_seekable_decoder(), pending, $plist, "C01/view_as_seekable");
                            }
                            _ => {
                                ctx.label("view:into_seekable_decoder");
                                drain_check!(coder.clone().into_seekable_decoder(), pending, $plist, "C01/view_into_seekable");
                            }
                        }
                        if !pending.is_empty() {
                            epoch += 1; // what follows is popped "after a re-import" of the data
                        }
                        let after = export(&coder);
                        vcheck!(words == after, "C01/view_changed_coder", "a read-only view changed the export from {} to {}", hexwords(&words), hexwords(&after));
                    }
                    // ---- clone ------------------------------------------------------------
                    _ => {
                        ctx.label("clone");
                        note!(ctx, "clone, continue on the clone");
                        let c2 = coder.clone();
                        let old = core::mem::replace(&mut coder, c2);
                        drain_check!(old, pending, $plist, "C01/original_after_clone");
                    }
                }
            }

            // ---- pop everything that is still pending ---------------------------------
            while let Some(e) = pending.pop() {
                let r = with_prec!(e.tab.sel, $plist, |M| coder.decode_symbol(M::new(&e.tab)));
                match r {
                    Ok(s) => vcheck!(
                        s == e.sym,
                        "C01/decode_mismatch",
                        "final drain decoded {} but pending push was {} ({})",
                        s,
                        e.sym,
                        e.tab.render()
                    ),
                    Err(err) => vfail!("C01/decode_error", "decode_symbol -> {:?}", err),
                }
                if epoch > e.epoch {
                    ctx.nontrivial();
                }
                let snap = snaps.pop().expect("harness");
                if pending.len() % 4 == 0 {
                    let now = export(&coder);
                    vcheck!(now == snap, "C01/export_not_restored_after_pop", "final drain: export {} vs {}", hexwords(&now), hexwords(&snap));
                }
            }
            let fin = export(&coder);
            note!(ctx, "final export {}", hexwords(&fin));
            vcheck!(
                fin == base,
                "C01/base_not_restored",
                "after popping all pushes the export is {} but it was {} before the first push",
                hexwords(&fin),
                hexwords(&base)
            );
            Ok(())
        }
    };
}

pub mod rows {
    use super::*;
    for_ans_rows!(c01_row);
}

pub fn c01_ans(src: &mut Src, ctx: &mut Ctx) -> CaseResult {
    match src.below(crate::cfg::N_ANS_ROWS as u64) {
        0 => rows::r_u8_u16(src, ctx),
        1 => rows::r_u8_u32(src, ctx),
        2 => rows::r_u8_u64(src, ctx),
        3 => rows::r_u16_u32(src, ctx),
        4 => rows::r_u16_u64(src, ctx),
        5 => rows::r_u32_u64(src, ctx),
        6 => rows::r_u32_u128(src, ctx),
        _ => rows::r_u64_u128(src, ctx),
    }
}
