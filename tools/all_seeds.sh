#!/bin/bash
# run every quick check with several seeds; print one line per (check, seed)
cd "$(dirname "$0")/.."
# with `vp run --with-repo`, point the snapshot's harness at the snapshot of the repository
if [ -n "$VP_RUN_REPO" ]; then
  sed -i "s#path = \"/repo\"#path = \"$VP_RUN_REPO\"#" harness/Cargo.toml
fi
./check --build >/dev/null 2>&1
for seed in "$@"; do
  for id in C01 C02 C03 C04 C05 C06 C07 C08 C09 C10 C11 C12 C13 C14 C15 C16 C17 C18 C19 C20; do
    out=$(VERIF_SEED=$seed ./check $id quick 2>&1); rc=$?
    echo "seed=$seed $id exit=$rc $(echo "$out" | tail -1 | cut -c1-160)"
    if [ $rc -ne 0 ]; then echo "$out" | grep -E "VIOLATION|signature|detail|INCONCL" | cut -c1-400; fi
  done
done
