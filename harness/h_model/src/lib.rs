//! Harness binary for the entropy models (C03, C05, C18 diagnostics, C19).

mod c09;
mod c10;
mod c20;
mod cat;
mod gen;
mod golden;
mod leaky;
mod validate;
mod zoo;

use vengine::{PanicPolicy, Target};

/// All targets of this harness crate (used by the worker binary and by the libFuzzer crate).
pub fn targets() -> Vec<Target> {
    vec![
        Target { name: "categorical", props: "C03 C05 C18 C19 (param selects the property)", policy: PanicPolicy::AllViolations, max_len: 2048, run: cat::categorical },
        Target { name: "leaky", props: "C03 C05 C18 C19 (param selects the property)", policy: PanicPolicy::AllViolations, max_len: 2048, run: leaky::leaky },
        Target { name: "c10_decode", props: "C10", policy: PanicPolicy::AllViolations, max_len: 2048, run: c10::c10_decode },
        Target { name: "c09_impossible", props: "C09", policy: PanicPolicy::AllViolations, max_len: 2048, run: c09::c09_impossible },
        Target { name: "c06_golden", props: "C06", policy: PanicPolicy::AllViolations, max_len: 16, run: golden::c06_golden },
        Target { name: "c20_unsafe", props: "C20", policy: PanicPolicy::CleanAllowed, max_len: 1024, run: c20::c20_unsafe },
        Target { name: "c20_user_impls", props: "C20", policy: PanicPolicy::CleanAllowed, max_len: 512, run: c20::c20_user_impls },
    ]
}
