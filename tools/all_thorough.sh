#!/bin/bash
# Run every thorough check once (seed from $1, default 0). Meant for `vp run --with-repo`:
# if VP_RUN_REPO is set, the snapshot's harness is pointed at that copy of the repository, so
# that edits of /repo made meanwhile do not disturb the run.
cd "$(dirname "$0")/.."
if [ -n "$VP_RUN_REPO" ]; then
  sed -i "s#path = \"/repo\"#path = \"$VP_RUN_REPO\"#" harness/Cargo.toml
  grep -n "constriction = " harness/Cargo.toml
fi
SEED=${1:-0}
./check --build 2>&1 | tail -1
for id in ${IDS:-C01 C02 C03 C04 C05 C06 C07 C08 C09 C10 C11 C12 C13 C14 C15 C16 C17 C18 C19 C20}; do
  start=$(date +%s)
  out=$(VERIF_SEED=$SEED ./check $id thorough 2>&1); rc=$?
  echo "seed=$SEED $id exit=$rc wall=$(( $(date +%s) - start ))s $(echo "$out" | tail -1 | cut -c1-200)"
  if [ $rc -ne 0 ]; then echo "$out" | grep -E "VIOLATION|signature|detail|INCONCL" | cut -c1-500; fi
  python3 -c "
import json; e=json.load(open('evidence/$id.json')); c=e['coverage']; print('   evaluations', c['evaluations'], 'distinct_nontrivial', c['distinct_nontrivial'], 'fuzz', {k:(v['runs'],v['crashing_inputs']) for k,v in c.get('libfuzzer_campaigns',{}).items() if isinstance(v,dict)}, 'infra', e.get('infrastructure_errors'))"
done
