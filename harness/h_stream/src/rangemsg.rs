//! Range-coder message interpreter, shared by several properties.  `ctx.param` selects
//! which oracle is asserted, so that every violation is attributed to the property whose
//! statement it contradicts:
//!
//! * `2`  — C02: sealed stream decodes (through 8 decoder constructions) to exactly the
//!          encoded symbols, FIFO; empty message -> no words; `maybe_exhausted` at the end.
//! * `6`  — C06: `into_compressed()` equals the carry-propagating reference coder, byte for
//!          byte, at the end and at a generated prefix.
//! * `12` — C12: size bound at every prefix.
//! * `18` — C18: `num_words`/`num_bits`/`is_empty` equal the export at every step;
//!          decoder exhaustion queries.
//!
//! Generator: configuration row, encoder constructor, up to 80 (quick) / 2000 (thorough)
//! symbols with per-symbol harness table and precision.  The table mixture is biased to
//! very skewed tables, which puts a sizeable fraction of symbol boundaries into the
//! *inverted* situation (words held back for a pending carry).

use constriction::backends::{Cursor, FallibleIteratorReadWords};
use constriction::stream::queue::{EncoderSituation, RangeDecoder, RangeEncoder};
use constriction::stream::{Code, Decode, Encode};
use constriction::UnwrapInfallible;
use core::convert::Infallible;
use hcommon::refs::RefRange;
use hcommon::{gen_tab, hexwords, Tab};
use vengine::{note, vassume, vcheck, vcheck_if, vfail, CaseResult, Ctx, Src};

macro_rules! precs {
    ([$(($Pr:ty, $P:literal)),+]) => { [$($P as u32),+] };
}

macro_rules! decode_all {
    ($d:expr, $msg:expr, $plist:tt, $sigpfx:literal, $what:expr) => {{
        for (i, (sym, tab)) in $msg.iter().enumerate() {
            let r = with_prec!(tab.sel, $plist, |M| $d.decode_symbol(M::new(tab)).map_err(|e| format!("{:?}", e)));
            match r {
                Ok(s) => vcheck!(
                    s == *sym,
                    concat!($sigpfx, "/decode_mismatch"),
                    "{}: symbol {} decoded as {} instead of {} ({})",
                    $what,
                    i,
                    s,
                    sym,
                    tab.render()
                ),
                Err(e) => vfail!(concat!($sigpfx, "/decode_error"), "{}: symbol {} -> {}", $what, i, e),
            }
        }
    }};
}

macro_rules! range_row {
    ($name:ident, $label:literal, $W:ty, $S:ty, $plist:tt) => {
        pub fn $name(src: &mut Src, ctx: &mut Ctx) -> CaseResult {
            type Enc = RangeEncoder<$W, $S, Vec<$W>>;
            const PRECS: &[u32] = &precs!($plist);
            let mode = ctx.param;
            ctx.label(concat!("cfg:", $label));
            note!(ctx, "cfg {}", $label);
            let wbits = <$W>::BITS as usize;
            let sbits = <$S>::BITS as usize;
            let mut enc: Enc = match src.below(3) {
                0 => Enc::new(),
                1 => Enc::default(),
                _ => Enc::with_backend(Vec::new()),
            };
            // C12 only: greedy adversary, see ansmsg.rs
            let adversarial = mode == 12 && src.bool();
            ctx.label_if(adversarial, "adversarial_symbol_choice");
            let max_syms = match (mode == 12, ctx.tier == 0) {
                (true, true) => 1500,
                (true, false) => 20000,
                (false, true) => 80,
                (false, false) => 2000,
            };
            let mut msg: Vec<(usize, Tab)> = Vec::new();
            let mut refc = RefRange::new(sbits as u32, wbits as u32);
            let mut cur_sel: u8 = src.below(PRECS.len() as u64) as u8;
            let mut bound_bits = 0f64; // sum of information contents + rounding terms
            let mut renorms = 0u32;
            let check_prefix_at = src.below(24) as usize;
            // choices that concern the end of the case are drawn first (the message consumes the rest)
            let via = src.below(8);
            let kfrac = src.below(256) as usize;
            let situation = |e: &Enc| if adversarial { EncoderSituation::Normal } else { e.clone().into_raw_parts().2 };
            let export = |e: &Enc| -> Vec<$W> {
                match e.clone().into_compressed() {
                    Ok(v) => v,
                    Err(x) => match x {},
                }
            };
            let mut held_prev = 0usize;
            let mut cleared = false;
            let mut run_left = 0usize;
            let mut run_tab: Option<Tab> = None;

            if mode == 18 {
                vcheck!(enc.is_empty() && enc.num_words() == 0 && enc.num_bits() == 0, "C18/range_fresh_encoder_not_empty", "fresh encoder: is_empty={} num_words={}", enc.is_empty(), enc.num_words());
            }

            while msg.len() < max_syms && (!src.is_empty() || run_left > 0) {
                if run_left == 0 && src.ratio(1, 4) {
                    let s = src.below(PRECS.len() as u64) as u8;
                    if s != cur_sel {
                        ctx.label("precision_changed");
                    }
                    cur_sel = s;
                }
                let tab = if run_left > 0 {
                    run_left -= 1;
                    run_tab.clone().expect("harness")
                } else {
                    let t = gen_tab(src, PRECS[cur_sel as usize], cur_sel, 8);
                    if adversarial {
                        run_left = src.below_usize(48);
                        run_tab = Some(t.clone());
                    }
                    t
                };
                let sym = if adversarial {
                    let st0 = enc.state();
                    let l0 = (st0.range().get() as f64).log2();
                    let mut best = (f64::MIN, 0usize);
                    for s in 0..tab.n() {
                        let mut twin = RangeEncoder::<$W, $S, Vec<$W>>::from_raw_parts(Vec::new(), st0, EncoderSituation::Normal);
                        let r = with_prec!(tab.sel, $plist, |M| twin.encode_symbol(s, M::new(&tab)));
                        if r.is_err() {
                            continue;
                        }
                        let (b, st1, sit1) = twin.into_raw_parts();
                        let emitted = b.len() + match sit1 { EncoderSituation::Inverted(n, _) => n.get(), EncoderSituation::Normal => 0 };
                        let waste = (wbits * emitted) as f64 - (st1.range().get() as f64).log2() + l0 - (tab.prec as f64 - (tab.prob(s) as f64).log2());
                        if waste > best.0 {
                            best = (waste, s);
                        }
                    }
                    best.1
                } else {
                    src.below_usize(tab.n())
                };
                note!(ctx, "encode sym={} {}", sym, tab.render());
                let (c, p, prec) = (tab.left(sym), tab.prob(sym), tab.prec);
                if p == 1 {
                    ctx.label("prob_1_quantum");
                }
                if p == (1u64 << prec) - 1 {
                    ctx.label("prob_max");
                }
                let len_b = enc.bulk().len();
                let sit_b = situation(&enc);
                let r = with_prec!(tab.sel, $plist, |M| enc.encode_symbol(sym, M::new(&tab)));
                vcheck_if!(mode == 2, ctx, r.is_ok(), "C02/encode_failed", "encode_symbol({}, {}) -> {:?}", sym, tab.render(), r);
                let sit_a = situation(&enc);
                let held = match sit_a {
                    EncoderSituation::Inverted(n, _) => n.get(),
                    EncoderSituation::Normal => 0,
                };
                if enc.bulk().len() + held > len_b + held_prev {
                    renorms += 1;
                }
                match (sit_b, sit_a) {
                    (EncoderSituation::Normal, EncoderSituation::Inverted(..)) => ctx.label("inverted_entered"),
                    (EncoderSituation::Inverted(n, first), EncoderSituation::Normal) => {
                        if n.get() >= 2 {
                            ctx.label("inverted_len>=2_resolved");
                        }
                        if enc.bulk().get(len_b) == Some(&first) {
                            ctx.label("carry_resolved_down");
                        } else {
                            ctx.label("carry_resolved_up");
                        }
                    }
                    (EncoderSituation::Inverted(a, _), EncoderSituation::Inverted(b, _)) if b.get() > a.get() => {
                        ctx.label("inverted_len>=2")
                    }
                    _ => {}
                }
                held_prev = held;
                let st = enc.state();
                if st.range().get() == (1 as $S) << (sbits - wbits) {
                    ctx.label("range_on_threshold");
                }
                msg.push((sym, tab));
                let n = msg.len();

                if mode == 6 || mode == 12 {
                    if refc.push(c, p, prec).is_err() {
                        vfail!("harness/ref_range_carry_out", "reference coder carried out of the first word");
                    }
                }
                if mode == 6 && n == check_prefix_at {
                    // the compressed form of the prefix, read either from a clone or through the documented
                    // temporary view on the encoder itself (which then goes on encoding)
                    let got: Vec<u128> = if kfrac % 2 == 1 {
                        ctx.label("prefix_read_through_get_compressed_view");
                        enc.get_compressed().iter().map(|&x| x as u128).collect()
                    } else {
                        export(&enc).into_iter().map(|x| x as u128).collect()
                    };
                    let exp = refc.sealed(true).map_err(|_| vengine::Fail::new("harness/ref_range_carry_out", "seal"))?;
                    vcheck!(got == exp, "C06/range_stream_differs_from_reference", "after {} symbols: encoder {} reference {}", n, hexwords(&got), hexwords(&exp));
                }
                if mode == 12 {
                    let eps = 2f64.powi(-((sbits - wbits) as i32 - prec as i32));
                    bound_bits += prec as f64 - (p as f64).log2() + (1.0 + eps).log2();
                    // the occupied size, either as reported or as counted on the temporary view of the live encoder
                    let words_now = if kfrac % 2 == 1 && !adversarial { enc.get_compressed().len() } else { enc.num_words() };
                    let bits = if kfrac % 4 == 2 { enc.num_bits() as f64 } else { (words_now * wbits) as f64 };
                    let bound = bound_bits + (sbits + 2 * wbits) as f64 + 1e-9 * n as f64 + 1e-6;
                    vcheck!(bits <= bound, "C12/range_bits_exceed_bound", "after {} symbols: {} bits > bound {:.3}", n, bits, bound);
                    let wmax = n + sbits / wbits + 2;
                    vcheck!(words_now <= wmax, "C12/range_words_exceed_bound", "after {} symbols: {} words > n + S/W + 2 = {}", n, words_now, wmax);
                    if bound - bits < wbits as f64 {
                        ctx.label("within_one_word_of_bound");
                    }
                }
                if (mode == 2 || mode == 18 || mode == 12) && !adversarial && !cleared && n == check_prefix_at && kfrac % 4 == 3 {
                    // clear(): "discards all compressed data and resets the coder to the same state as new()";
                    // what follows is a fresh message on an empty coder
                    let was_inverted = matches!(situation(&enc), EncoderSituation::Inverted(..));
                    enc.clear();
                    cleared = true;
                    ctx.label(if was_inverted { "cleared_while_words_were_held_back" } else { "cleared" });
                    note!(ctx, "clear()");
                    msg.clear();
                    refc = RefRange::new(sbits as u32, wbits as u32);
                    held_prev = 0;
                    bound_bits = 0.0; // the size bound speaks about the message on the emptied coder
                    let ex = export(&enc);
                    if mode == 12 {
                        vcheck!(ex.is_empty(), "C12/range_words_after_clear", "a cleared encoder holds {} words", ex.len());
                    } else if mode == 2 {
                        vcheck!(ex.is_empty(), "C02/empty_message_produced_words", "a cleared encoder (empty message) seals to {}", hexwords(&ex));
                    } else {
                        vcheck!(
                            enc.is_empty() == ex.is_empty() && enc.num_words() == ex.len() && enc.num_bits() == wbits * ex.len(),
                            "C18/range_sizes_after_clear",
                            "after clear(): is_empty()={} num_words()={} num_bits()={} but the export is {}",
                            enc.is_empty(),
                            enc.num_words(),
                            enc.num_bits(),
                            hexwords(&ex)
                        );
                    }
                    continue;
                }
                if mode == 18 {
                    let ex = export(&enc);
                    vcheck!(enc.num_words() == ex.len(), "C18/range_num_words", "after {} symbols num_words()={} but the export has {} words (situation {:?})", n, enc.num_words(), ex.len(), sit_a);
                    vcheck!(enc.num_bits() == wbits * ex.len(), "C18/range_num_bits", "num_bits()={} export has {} words", enc.num_bits(), ex.len());
                    vcheck!(enc.is_empty() == ex.is_empty(), "C18/range_is_empty", "is_empty()={} export has {} words", enc.is_empty(), ex.len());
                    if held > 0 {
                        ctx.label("size_query_while_inverted");
                    }
                }
            }
            if mode == 18 {
                // an encoder that appends to words which are already there (documented use of `with_backend`): the queries
                // must still describe what exporting returns. (No new draws: prefix and symbols are functions of choices
                // made above.)
                let prefix: Vec<$W> = (0..1 + via as usize % 3).map(|i| (kfrac + i * 77) as $W).collect();
                let mut e2 = Enc::with_backend(prefix.clone());
                for step in 0..=msg.len().min(3) {
                    if step > 0 {
                        let (sym, tab) = &msg[step - 1];
                        let r = with_prec!(tab.sel, $plist, |M| e2.encode_symbol(*sym, M::new(tab)));
                        vassume!(ctx, r.is_ok(), "foreign:C02/encode_failed");
                    }
                    let ex = export(&e2);
                    vcheck!(
                        e2.num_words() == ex.len() && e2.num_bits() == wbits * ex.len() && e2.is_empty() == ex.is_empty(),
                        "C18/range_sizes_on_prefilled_backend",
                        "encoder created with_backend({}) after {} symbols: num_words()={} num_bits()={} is_empty()={} but the export is {}",
                        hexwords(&prefix),
                        step,
                        e2.num_words(),
                        e2.num_bits(),
                        e2.is_empty(),
                        hexwords(&ex)
                    );
                }
                ctx.label("size_queries_on_prefilled_backend");
            }
            let n = msg.len();
            let sealed_inverted = matches!(situation(&enc), EncoderSituation::Inverted(..));
            ctx.label_if(sealed_inverted, "sealed_while_inverted");
            let enc_copy = enc.clone();
            let words: Vec<$W> = match enc.into_compressed() {
                Ok(v) => v,
                Err(x) => match x {},
            };
            note!(ctx, "sealed {}", hexwords(&words));
            if renorms > 0 {
                ctx.nontrivial();
            }
            ctx.label_if(n == 0, "empty_message");

            if mode == 6 {
                let got: Vec<u128> = words.iter().map(|&x| x as u128).collect();
                let exp = refc.sealed(true).map_err(|_| vengine::Fail::new("harness/ref_range_carry_out", "seal"))?;
                ctx.label_if(refc.carries > 0, "reference_carried");
                vcheck!(got == exp, "C06/range_stream_differs_from_reference", "after all {} symbols: encoder {} reference {}", n, hexwords(&got), hexwords(&exp));
            }

            if mode == 2 {
                if n == 0 {
                    vcheck!(words.is_empty(), "C02/empty_message_produced_words", "empty message sealed to {}", hexwords(&words));
                }
                // The batch forms (provided methods of `Encode` / `Decode`) are the per-symbol loop: a second encoder is fed
                // run by run (runs of equal precision), a second decoder reads the message back run by run, the iterators
                // being consumed through collect / next + size_hint / nth. (No new draws.)
                if !adversarial {
                    let mut eb = Enc::new();
                    let mut db = RangeDecoder::<$W, $S, _>::from_compressed(words.clone()).unwrap_infallible();
                    let (mut i, mut run_no) = (0usize, 0usize);
                    while i < n {
                        let sel = msg[i].1.sel;
                        let mut j = i;
                        while j < n && msg[j].1.sel == sel && j - i < 7 {
                            j += 1;
                        }
                        let run = &msg[i..j];
                        let iid = run.iter().all(|(_, t)| *t == run[0].1);
                        let eform = (run_no + kfrac) % 3;
                        let r: Result<(), String> = with_prec!(sel, $plist, |M| match eform {
                            0 => eb.encode_symbols(run.iter().map(|(s, t)| (*s, M::new(t)))).map_err(|e| format!("{:?}", e)),
                            1 => eb.try_encode_symbols(run.iter().map(|(s, t)| Ok::<_, Infallible>((*s, M::new(t))))).map_err(|e| format!("{:?}", e)),
                            _ if iid => eb.encode_iid_symbols(run.iter().map(|(s, _)| *s), M::new(&run[0].1)).map_err(|e| format!("{:?}", e)),
                            _ => eb.encode_symbols(run.iter().map(|(s, t)| (*s, M::new(t)))).map_err(|e| format!("{:?}", e)),
                        });
                        vcheck!(r.is_ok(), "C02/batch_encode_failed", "batch form {} on symbols {}..{} -> {:?}", eform, i, j, r);
                        let expect: Vec<usize> = run.iter().map(|(s, _)| *s).collect();
                        let dform = (run_no + via as usize) % 5;
                        let got: Result<Vec<usize>, String> = with_prec!(sel, $plist, |M| match dform {
                            0 | 1 | 2 => crate::c01::consume_batch(dform, &expect, db.decode_symbols(run.iter().map(|(_, t)| M::new(t)))),
                            3 if iid => crate::c01::consume_batch(run_no % 3, &expect, db.decode_iid_symbols(run.len(), M::new(&run[0].1))),
                            _ => db.try_decode_symbols(run.iter().map(|(_, t)| Ok::<_, Infallible>(M::new(t)))).collect::<Result<Vec<_>, _>>().map_err(|e| format!("{:?}", e)),
                        });
                        vcheck!(got.as_ref() == Ok(&expect), "C02/batch_decode_mismatch", "batch decode form {} on symbols {}..{}: {:?}, encoded {:?}", dform, i, j, got, expect);
                        i = j;
                        run_no += 1;
                    }
                    let wb: Vec<$W> = match eb.into_compressed() {
                        Ok(v) => v,
                        Err(x) => match x {},
                    };
                    vcheck!(wb == words, "C02/batch_encode_differs_from_loop", "batch forms sealed to {}, the per-symbol loop to {}", hexwords(&wb), hexwords(&words));
                    vcheck!(db.maybe_exhausted(), "C02/not_maybe_exhausted_at_end", "after batch-decoding all {} symbols from {}", n, hexwords(&words));
                    ctx.label_if(n >= 2, "batch_forms");
                }
                match via {
                    0 => {
                        ctx.label("dec:from_compressed_vec");
                        let mut d = RangeDecoder::<$W, $S, _>::from_compressed(words.clone()).unwrap_infallible();
                        decode_all!(d, msg, $plist, "C02", "from_compressed(Vec)");
                        vcheck!(d.maybe_exhausted(), "C02/not_maybe_exhausted_at_end", "after decoding all {} symbols from {}", n, hexwords(&words));
                    }
                    1 => {
                        ctx.label("dec:from_compressed_slice");
                        let mut d = RangeDecoder::<$W, $S, _>::from_compressed(&words[..]).unwrap_infallible();
                        decode_all!(d, msg, $plist, "C02", "from_compressed(&[..])");
                        vcheck!(d.maybe_exhausted(), "C02/not_maybe_exhausted_at_end", "after decoding all {} symbols from {}", n, hexwords(&words));
                    }
                    2 => {
                        ctx.label("dec:for_compressed");
                        let mut d = RangeDecoder::<$W, $S, _>::for_compressed(&words).unwrap_infallible();
                        decode_all!(d, msg, $plist, "C02", "for_compressed(&Vec)");
                        vcheck!(d.maybe_exhausted(), "C02/not_maybe_exhausted_at_end", "after decoding all {} symbols from {}", n, hexwords(&words));
                    }
                    3 => {
                        ctx.label("dec:with_backend_cursor");
                        let mut d = RangeDecoder::<$W, $S, _>::with_backend(Cursor::new_at_write_beginning(words.clone())).unwrap_infallible();
                        decode_all!(d, msg, $plist, "C02", "with_backend(Cursor)");
                        vcheck!(d.maybe_exhausted(), "C02/not_maybe_exhausted_at_end", "after decoding all {} symbols from {}", n, hexwords(&words));
                    }
                    4 => {
                        ctx.label("dec:encoder_into_decoder");
                        let mut d = match enc_copy.into_decoder() {
                            Ok(d) => d,
                            Err(()) => vfail!("C02/into_decoder_failed", "RangeEncoder::into_decoder returned Err"),
                        };
                        decode_all!(d, msg, $plist, "C02", "encoder.into_decoder()");
                        vcheck!(d.maybe_exhausted(), "C02/not_maybe_exhausted_at_end", "after decoding all {} symbols from {}", n, hexwords(&words));
                    }
                    5 => {
                        ctx.label("dec:from_encoder");
                        let mut d: RangeDecoder<$W, $S, _> = enc_copy.into();
                        decode_all!(d, msg, $plist, "C02", "RangeDecoder::from(encoder)");
                        vcheck!(d.maybe_exhausted(), "C02/not_maybe_exhausted_at_end", "after decoding all {} symbols from {}", n, hexwords(&words));
                    }
                    6 => {
                        if (n + words.len()) % 2 == 0 {
                            ctx.label("dec:iterator_backend");
                            let it = words.iter().map(|w| Ok::<$W, Infallible>(*w));
                            let mut d = RangeDecoder::<$W, $S, _>::with_backend(FallibleIteratorReadWords::new(it)).unwrap_infallible();
                            decode_all!(d, msg, $plist, "C02", "iterator backend");
                            vcheck!(d.maybe_exhausted(), "C02/not_maybe_exhausted_at_end", "after decoding all {} symbols from {}", n, hexwords(&words));
                        } else {
                            // an iterator that does not know its length (words arriving from a stream)
                            ctx.label("dec:iterator_backend_of_unknown_length");
                            let mut at = 0usize;
                            let it = core::iter::from_fn(|| {
                                let w = words.get(at).copied();
                                at += 1;
                                w.map(Ok::<$W, Infallible>)
                            });
                            let mut d = RangeDecoder::<$W, $S, _>::with_backend(FallibleIteratorReadWords::new(it)).unwrap_infallible();
                            decode_all!(d, msg, $plist, "C02", "iterator backend of unknown length");
                            vcheck!(d.maybe_exhausted(), "C02/not_maybe_exhausted_at_end", "after decoding all {} symbols from {} (iterator backend of unknown length)", n, hexwords(&words));
                        }
                    }
                    _ => {
                        ctx.label("dec:temporary_encoder_decoder");
                        let mut e2 = enc_copy;
                        {
                            let mut d = e2.decoder();
                            decode_all!(d, msg, $plist, "C02", "encoder.decoder()");
                            vcheck!(d.maybe_exhausted(), "C02/not_maybe_exhausted_at_end", "after decoding all {} symbols from {}", n, hexwords(&words));
                        }
                    }
                }
            }

            if mode == 18 {
                // decoder exhaustion: stop after k symbols
                let k = if kfrac >= 224 { n } else { n * kfrac / 224 };
                let mut d = RangeDecoder::<$W, $S, _>::from_compressed(&words[..]).unwrap_infallible();
                for (sym, tab) in msg.iter().take(k) {
                    let r = with_prec!(tab.sel, $plist, |M| d.decode_symbol(M::new(tab)).ok());
                    vassume!(ctx, r == Some(*sym), "foreign:C02/decode_mismatch");
                }
                let (cursor, _, _) = d.clone().into_raw_parts();
                let left = words.len() - cursor.into_buf_and_pos().1;
                if left >= 1 {
                    ctx.label("decoder_with_words_left");
                    vcheck!(!d.maybe_exhausted(), "C18/range_decoder_exhausted_with_words_left", "after {} of {} symbols {} whole words are unread but maybe_exhausted() is true", k, n, left);
                }
                if k == n {
                    vcheck!(d.maybe_exhausted(), "C18/range_decoder_not_exhausted_at_end", "after all {} symbols maybe_exhausted() is false; words {}", n, hexwords(&words));
                }
            }
            Ok(())
        }
    };
}

pub mod rows {
    use super::*;
    for_ans_rows!(range_row);
}

pub fn range_msg(src: &mut Src, ctx: &mut Ctx) -> CaseResult {
    match src.below(crate::cfg::N_ANS_ROWS as u64) {
        0 => rows::r_u8_u16(src, ctx),
        1 => rows::r_u8_u32(src, ctx),
        2 => rows::r_u8_u64(src, ctx),
        3 => rows::r_u16_u32(src, ctx),
        4 => rows::r_u16_u64(src, ctx),
        5 => rows::r_u32_u64(src, ctx),
        6 => rows::r_u32_u128(src, ctx),
        _ => rows::r_u64_u128(src, ctx),
    }
}
