//! The harness's own entropy model: an explicit cumulative table
//! `0 = c_0 < c_1 < … < c_n = 2^P` (stored as `u64`, `P <= 32`), implementing the
//! library's model traits by table lookup.  No floating point, no unsafe, independent of
//! the library's own model code.
//!
//! `Tab` is not generic (so histories can store models of different precisions in one
//! `Vec`); `TV<'_, Probability, P>` is the typed view handed to the coders.

use constriction::stream::model::{DecoderModel, EncoderModel, EntropyModel};
use constriction::BitArray;
use core::borrow::Borrow;
use core::marker::PhantomData;
use num_traits::AsPrimitive;
use vengine::Src;

#[derive(Clone, Debug, PartialEq, Eq)]
pub struct Tab {
    pub cdf: Vec<u64>,
    /// PRECISION
    pub prec: u32,
    /// index of (Probability, PRECISION) in the configuration row's list
    pub sel: u8,
}

impl Tab {
    pub fn n(&self) -> usize {
        self.cdf.len() - 1
    }
    pub fn left(&self, s: usize) -> u64 {
        self.cdf[s]
    }
    pub fn prob(&self, s: usize) -> u64 {
        self.cdf[s + 1] - self.cdf[s]
    }
    /// symbol whose interval contains quantile `q < 2^P`
    pub fn lookup(&self, q: u64) -> usize {
        self.cdf.partition_point(|&c| c <= q) - 1
    }
    pub fn render(&self) -> String {
        format!("P={} cdf={:?}", self.prec, self.cdf)
    }
    pub fn has_one_quantum(&self) -> bool {
        (0..self.n()).any(|s| self.prob(s) == 1)
    }
    pub fn has_max_prob(&self) -> bool {
        (0..self.n()).any(|s| self.prob(s) == (1u64 << self.prec) - 1)
    }
}

/// Draws a table at precision `prec` with 2..=max_syms symbols from a mixture that forces
/// the extremes: uniform cuts, cuts near 0, cuts near 2^P, a 1-quantum symbol, a
/// (2^P-1)-quantum symbol.  Built by construction (sorted, de-duplicated cut points).
pub fn gen_tab(src: &mut Src, prec: u32, sel: u8, max_syms: usize) -> Tab {
    let total = 1u64 << prec;
    if total == 2 {
        return Tab {
            cdf: vec![0, 1, 2],
            prec,
            sel,
        };
    }
    let ncuts_max = (max_syms.max(2) as u64 - 1).min(total - 1);
    let mode = src.below(8);
    let mut cuts: Vec<u64> = match mode {
        0 => vec![1],         // symbol 0 has one quantum, symbol 1 has 2^P - 1
        1 => vec![total - 1], // symbol 0 has 2^P - 1 quanta, symbol 1 has one
        2 => {
            // cuts within 4 of 0
            let k = 1 + src.below(ncuts_max.min(4));
            (0..k).map(|_| 1 + src.below((total - 1).min(4))).collect()
        }
        3 => {
            // cuts within 4 of 2^P
            let k = 1 + src.below(ncuts_max.min(4));
            (0..k).map(|_| total - 1 - src.below((total - 1).min(4))).collect()
        }
        4 => {
            // a one-quantum symbol somewhere in the middle
            let c = 1 + src.below(total - 2);
            let mut v = vec![c, c + 1];
            let k = src.below(ncuts_max.saturating_sub(1).min(4));
            for _ in 0..k {
                v.push(1 + src.below(total - 1));
            }
            v
        }
        _ => {
            let k = 1 + src.below(ncuts_max);
            (0..k).map(|_| 1 + src.below(total - 1)).collect()
        }
    };
    cuts.retain(|&c| c >= 1 && c < total);
    cuts.sort_unstable();
    cuts.dedup();
    if cuts.is_empty() {
        cuts.push(total / 2);
    }
    let mut cdf = Vec::with_capacity(cuts.len() + 2);
    cdf.push(0);
    cdf.extend(cuts);
    cdf.push(total);
    Tab { cdf, prec, sel }
}

thread_local! {
    /// number of times a coder handed a quantile >= 2^PRECISION to a harness table
    pub static OUT_OF_RANGE_QUANTILES: core::cell::Cell<u64> = const { core::cell::Cell::new(0) };
}

pub fn out_of_range_quantiles() -> u64 {
    OUT_OF_RANGE_QUANTILES.with(|c| c.get())
}

/// Typed view of a [`Tab`].
pub struct TV<'a, Pr, const P: usize>(pub &'a Tab, PhantomData<Pr>);

impl<'a, Pr, const P: usize> TV<'a, Pr, P> {
    #[inline]
    pub fn new(t: &'a Tab) -> Self {
        assert!(t.prec as usize == P, "harness: table precision / view mismatch");
        TV(t, PhantomData)
    }
}
impl<Pr, const P: usize> Clone for TV<'_, Pr, P> {
    fn clone(&self) -> Self {
        *self
    }
}
impl<Pr, const P: usize> Copy for TV<'_, Pr, P> {}

impl<Pr: BitArray, const P: usize> EntropyModel<P> for TV<'_, Pr, P> {
    type Symbol = usize;
    type Probability = Pr;
}

impl<Pr: BitArray, const P: usize> EncoderModel<P> for TV<'_, Pr, P>
where
    u64: AsPrimitive<Pr>,
{
    #[inline]
    fn left_cumulative_and_probability(
        &self,
        s: impl Borrow<usize>,
    ) -> Option<(Pr, Pr::NonZero)> {
        let s = *s.borrow();
        if s >= self.0.n() {
            return None;
        }
        let c: Pr = self.0.cdf[s].as_();
        let p: Pr = (self.0.cdf[s + 1] - self.0.cdf[s]).as_();
        Some((c, p.into_nonzero().expect("harness: table has empty symbol")))
    }
}

impl<Pr: BitArray + Into<u64>, const P: usize> DecoderModel<P> for TV<'_, Pr, P>
where
    u64: AsPrimitive<Pr>,
{
    #[inline]
    fn quantile_function(&self, q: Pr) -> (usize, Pr, Pr::NonZero) {
        let q: u64 = q.into();
        // A quantile >= 2^P is a contract violation by the *coder*; answer with the last
        // symbol instead of panicking inside the harness and count the event (C10 reads the
        // counter).
        let s = if q >= self.0.cdf[self.0.n()] {
            OUT_OF_RANGE_QUANTILES.with(|c| c.set(c.get() + 1));
            self.0.n() - 1
        } else {
            self.0.lookup(q)
        };
        let c: Pr = self.0.cdf[s].as_();
        let p: Pr = (self.0.cdf[s + 1] - self.0.cdf[s]).as_();
        (s, c, p.into_nonzero().expect("harness: table has empty symbol"))
    }
}
