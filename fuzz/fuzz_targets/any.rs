//! One libFuzzer binary for every harness target: the target, its parameter and the tier are
//! chosen with the environment variables VFUZZ_TARGET / VFUZZ_PARAM / VFUZZ_TIER /
//! VFUZZ_UBONLY at start-up. The fuzzed function is exactly the `execute` of the random
//! driver, so generators, oracles, replay files and shrinking are shared: a crashing input
//! is a case (byte string) that `./check <ID> --replay` understands.
#![no_main]
use libfuzzer_sys::fuzz_target;
use std::sync::OnceLock;
use vengine::{Outcome, Target};

struct Sel {
    target: Target,
    param: u64,
    tier: u8,
}

static SEL: OnceLock<Sel> = OnceLock::new();

fn sel() -> &'static Sel {
    SEL.get_or_init(|| {
        let name = std::env::var("VFUZZ_TARGET").expect("set VFUZZ_TARGET");
        let param = std::env::var("VFUZZ_PARAM").ok().and_then(|s| s.parse().ok()).unwrap_or(0);
        let tier = std::env::var("VFUZZ_TIER").ok().and_then(|s| s.parse().ok()).unwrap_or(0);
        if std::env::var("VFUZZ_UBONLY").map(|v| v == "1").unwrap_or(false) {
            vengine::UB_ONLY.store(true, std::sync::atomic::Ordering::Relaxed);
        }
        let mut all = Vec::new();
        all.extend(h_stream::targets());
        all.extend(h_chain::targets());
        all.extend(h_symbol::targets());
        all.extend(h_model::targets());
        let target = all.into_iter().find(|t| t.name == name).unwrap_or_else(|| panic!("unknown target {name}"));
        Sel { target, param, tier }
    })
}

fuzz_target!(|data: &[u8]| {
    let s = sel();
    let ex = vengine::execute(&s.target, data, false, s.tier, s.param);
    match ex.outcome {
        Outcome::Pass | Outcome::Discard(_) => {}
        Outcome::Violation(f) => {
            // print the signature for the driver, then crash so that libFuzzer saves the input
            eprintln!("VFUZZ-VIOLATION sig={} detail={}", f.sig, f.detail.replace('\n', " "));
            std::process::abort();
        }
        Outcome::HarnessBug(m) => {
            eprintln!("VFUZZ-HARNESS-BUG {m}");
            std::process::abort();
        }
    }
});
