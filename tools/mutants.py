#!/usr/bin/env python3
"""Mechanical sensitivity test of the checks: sample small syntactic mutants of the anchored
library sources, run the quick checks that cover the mutated file against each, and (for the
mutants the checks stay silent on) the repository's own test suite.

Works on SCRATCH COPIES only (never on /repo or /verif): a git worktree of /repo's HEAD and a
copy of /verif whose harness is pointed at that worktree, both under --scratch (default
/tmp/mut), removed at the end unless --keep.

  tools/mutants.py --n 120 --seed 1 --out mutation/run1.jsonl
  tools/mutants.py --files src/stream/chain.rs --n 40 --seed 2 --out mutation/chain.jsonl

Output: one JSON object per mutant {file, line, op, before, after, status, caught_by, signature,
suite, wall_s}; status in {caught, survived, uncompilable}; `suite` (only for survivors) in
{killed, passes, timeout}.
"""
import argparse, json, os, random, re, subprocess, sys, time

ROOT = os.path.dirname(os.path.dirname(os.path.abspath(__file__)))

# file -> checks to run (most likely catcher first)
FILES = {
    "src/stream/stack.rs": ["C01", "C04", "C12", "C07", "C08", "C09", "C10", "C18", "C06"],
    "src/stream/queue.rs": ["C02", "C11", "C07", "C08", "C12", "C18", "C09", "C10", "C06"],
    "src/stream/chain.rs": ["C13", "C14", "C10", "C09"],
    "src/backends.rs": ["C17", "C07", "C01", "C02", "C09", "C20"],
    "src/symbol/mod.rs": ["C16", "C15", "C08", "C18", "C20"],
    "src/symbol/huffman.rs": ["C15", "C16", "C20", "C09"],
    "src/symbol/exp_golomb.rs": ["C16", "C15"],
    "src/stream/model/categorical.rs": ["C19", "C03", "C05", "C20", "C18"],
    "src/stream/model/categorical/contiguous.rs": ["C03", "C05", "C19", "C10", "C18", "C06"],
    "src/stream/model/categorical/non_contiguous.rs": ["C03", "C05", "C18", "C19", "C10"],
    "src/stream/model/categorical/lazy_contiguous.rs": ["C03", "C05", "C19", "C10", "C18"],
    "src/stream/model/categorical/lookup_contiguous.rs": ["C05", "C03", "C10", "C19", "C18", "C20"],
    "src/stream/model/categorical/lookup_noncontiguous.rs": ["C05", "C03", "C10", "C19", "C18", "C20"],
    "src/stream/model/quantize.rs": ["C03", "C05", "C19", "C10", "C09", "C18", "C06"],
    "src/stream/model/uniform.rs": ["C03", "C05", "C19", "C09", "C18"],
    "src/stream/model.rs": ["C03", "C05", "C18", "C10"],
    "src/stream/mod.rs": ["C01", "C02", "C13", "C09"],
    "src/lib.rs": ["C03", "C07", "C17", "C01", "C02", "C04", "C19"],
}

BINOPS = [
    (" < ", " <= "), (" <= ", " < "), (" > ", " >= "), (" >= ", " > "), (" == ", " != "), (" != ", " == "),
    (" + ", " - "), (" - ", " + "), (" << ", " >> "), (" >> ", " << "), (" && ", " || "), (" || ", " && "),
    ("wrapping_add", "wrapping_sub"), ("wrapping_sub", "wrapping_add"), ("::one()", "::zero()"), ("::zero()", "::one()"),
    (".rev()", ""), (" + 1", " + 2"), (" - 1", ""), (" + 1", ""), ("if !", "if "), (" += ", " -= "), (" -= ", " += "),
    ("checked_add", "checked_sub"), ("saturating_sub", "wrapping_sub"), ("max_value()", "zero()"), (" | ", " & "), (" & ", " | "), (" ^ ", " | "),
]
STMT = re.compile(r"^\s*(self\.[\w\.\[\]]+|\*?[a-z_][\w\.]*)\s*([+\-|&^]|<<|>>)?=\s[^=].*;\s*$")
CALLQ = re.compile(r"^\s*self\.[\w\.]+\([^;]*\)\?;\s*$")


def code_lines(path):
    """(index, text) of lines that are library code: outside the tests module, comments, attributes,
    assertions, where-clauses and signatures."""
    lines = open(path).read().split("\n")
    out = []
    in_tests = False
    depth_macro = 0
    for i, l in enumerate(lines):
        s = l.strip()
        if re.match(r"^(pub\s+)?mod tests?\b", s) or s.startswith("#[cfg(test)]"):
            in_tests = True
        if in_tests:
            continue
        if not s or s.startswith("//") or s.startswith("#[") or s.startswith("#!["):
            continue
        if "assert" in s or s.startswith("where") or s.startswith("fn ") or s.startswith("pub fn ") or s.startswith("impl") or s.startswith("type ") or s.startswith("pub type "):
            continue
        if s.startswith("use ") or s.startswith("pub use ") or '"' in s or "'" in s and "<'" in s:
            continue
        if re.search(r"^\w+\s*:\s*[\w:<>\[\], +']+,?$", s):  # trait bounds / field declarations
            continue
        code = l.split("//")[0]
        out.append((i, code))
    return lines, out


def sites(path):
    lines, cl = code_lines(path)
    res = []
    for i, code in cl:
        for a, b in BINOPS:
            start = 0
            while True:
                k = code.find(a, start)
                if k < 0:
                    break
                start = k + len(a)
                if a in (" < ", " > ") and ("->" in code or "::<" in code or "impl" in code):
                    continue
                if a in (" + ", " - ", " & ", " | ") and (":" in code and ("where" in code or code.strip().endswith(",") and "(" not in code)):
                    continue
                if a == " - 1" or a == " + 1":
                    # only when followed by a non-digit
                    nxt = code[k + len(a):k + len(a) + 1]
                    if nxt.isdigit() or nxt == ".":
                        continue
                new = code[:k] + b + code[k + len(a):]
                res.append((i, "%s->%s" % (a.strip() or a, b.strip() or "(removed)"), lines[i], new + lines[i][len(code):] if False else new))
        if STMT.match(code) or CALLQ.match(code):
            if not code.strip().startswith("let "):
                res.append((i, "delete-statement", lines[i], re.match(r"^\s*", code).group(0) + "// (statement deleted)"))
    return lines, res


def sh(cmd, cwd=None, timeout=None, env=None):
    try:
        p = subprocess.run(cmd, shell=True, cwd=cwd, text=True, stdout=subprocess.PIPE, stderr=subprocess.STDOUT, timeout=timeout, env=env)
        return p.returncode, p.stdout
    except subprocess.TimeoutExpired as e:
        return 124, (e.stdout or b"").decode(errors="replace") if isinstance(e.stdout, bytes) else (e.stdout or "")


def main():
    ap = argparse.ArgumentParser()
    ap.add_argument("--n", type=int, default=100)
    ap.add_argument("--seed", type=int, default=1)
    ap.add_argument("--files", nargs="*", default=None)
    ap.add_argument("--out", required=True)
    ap.add_argument("--scratch", default="/tmp/mut")
    ap.add_argument("--keep", action="store_true")
    ap.add_argument("--list", action="store_true", help="only count mutation sites")
    ap.add_argument("--no-suite", action="store_true")
    ap.add_argument("--retest", help="re-run the survivors recorded in this results file against the current checks")
    a = ap.parse_args()
    files = a.files or list(FILES)
    repo, verif = os.path.join(a.scratch, "repo"), os.path.join(a.scratch, "verif")
    if a.list:
        tot = 0
        for f in files:
            _, s = sites(os.path.join("/repo", f))
            print("%5d  %s" % (len(s), f))
            tot += len(s)
        print("%5d  total" % tot)
        return
    out = a.out if os.path.isabs(a.out) else os.path.join(ROOT, a.out)
    os.makedirs(os.path.dirname(out), exist_ok=True)
    sh("git -C /repo worktree remove --force %s; rm -rf %s; mkdir -p %s" % (repo, a.scratch, a.scratch))
    rc, o = sh("git -C /repo worktree add --detach %s HEAD" % repo)
    assert rc == 0, o
    rc, o = sh("rsync -a --exclude '.target*' --exclude .git --exclude replays --exclude evidence --exclude mutation %s/ %s/ && mkdir -p %s/evidence" % (ROOT, verif, verif))
    assert rc == 0, o
    sh("sed -i 's#path = \"/repo\"#path = \"%s\"#' %s/harness/Cargo.toml" % (repo, verif))
    env = dict(os.environ, VERIF_NO_FUZZ="1")
    rc, o = sh("./check --build", cwd=verif, env=env)
    print("baseline build:", o.strip().splitlines()[-1] if o.strip() else rc, flush=True)
    assert rc == 0, o
    suite_env = dict(os.environ, CARGO_TARGET_DIR=os.path.join(a.scratch, "target_suite"), CARGO_NET_OFFLINE="true")
    # all mutants, sampled
    allm = []
    for f in files:
        _, s = sites(os.path.join(repo, f))
        allm += [(f,) + m for m in s]
    rnd = random.Random(a.seed)
    rnd.shuffle(allm)
    chosen = allm[: a.n]
    if a.retest:
        want = set()
        for line in open(a.retest if os.path.isabs(a.retest) else os.path.join(ROOT, a.retest)):
            r = json.loads(line)
            if r["status"] == "survived":
                want.add((r["file"], r["line"] - 1, r["op"], r["after"]))
        chosen = [m for m in allm if (m[0], m[1], m[2], m[4].strip()) in want]
        a.no_suite = True
    print("%d mutation sites in %d files; %d sampled (seed %d)" % (len(allm), len(files), len(chosen), a.seed), flush=True)
    stats = {}
    for k, (f, i, op, before, after) in enumerate(chosen):
        t0 = time.time()
        path = os.path.join(repo, f)
        orig = open(path).read()
        lines = orig.split("\n")
        assert lines[i] == before
        lines[i] = after
        open(path, "w").write("\n".join(lines))
        rec = {"file": f, "line": i + 1, "op": op, "before": before.strip(), "after": after.strip(), "status": "survived", "caught_by": None, "signature": None, "checks_run": []}
        try:
            for cid in FILES[f]:
                rc, o = sh("./check %s quick" % cid, cwd=verif, env=env, timeout=3600)
                rec["checks_run"].append("%s=%d" % (cid, rc))
                if rc == 2 and "harness build failed" in o:
                    rec["status"] = "uncompilable"
                    break
                if rc == 1:
                    rec["status"] = "caught"
                    rec["caught_by"] = cid
                    m = re.search(r"signature: (\S.*?)  \(", o)
                    rec["signature"] = m.group(1) if m else None
                    break
            sh("rm -f replays/*/found-*", cwd=verif)
            if rec["status"] == "survived" and not a.no_suite:
                rc, o = sh("cargo test --workspace --no-fail-fast --offline 2>&1 | grep -E '^test result|FAILED|failed|panicked' | head -30", cwd=repo, env=suite_env, timeout=1500)
                if rc == 124:
                    rec["suite"] = "timeout"
                elif re.search(r"FAILED|[1-9]\d* failed|error(\[|:)", o):
                    rec["suite"] = "killed"
                    rec["suite_detail"] = [l for l in o.splitlines() if "FAILED" in l or "panicked" in l][:4]
                else:
                    rec["suite"] = "passes"
        finally:
            open(path, "w").write(orig)
        rec["wall_s"] = round(time.time() - t0, 1)
        key = rec["status"] + ("/" + rec["suite"] if rec.get("suite") else "")
        stats[key] = stats.get(key, 0) + 1
        with open(out, "a") as fh:
            fh.write(json.dumps(rec) + "\n")
        print("[%d/%d] %s:%d %s  %s %s %s (%.0fs)  %s" % (k + 1, len(chosen), f, i + 1, op, key, rec["caught_by"] or "", rec["signature"] or "", rec["wall_s"], stats), flush=True)
    if not a.keep:
        sh("git -C /repo worktree remove --force %s; rm -rf %s; git -C /repo worktree prune" % (repo, a.scratch))
    print("DONE", stats)


main()
