//! Reference coders, written from the published algorithms with plain `u128` arithmetic
//! and none of the implementation's bookkeeping ("situations", held-back words, guards).
//! They serve C06 (format conformance), C11 (seal) and C12 (size bound).

/// Streaming rANS as published (Duda 2013; Giesen 2014 "rans_byte"), parameterised by
/// word size `w`, state size `s` (bits) and per-symbol precision:
///
/// ```text
/// push(c, p, P):  if x >= p * 2^(s-P) { emit low word of x; x >>= w }
///                 x = floor(x / p) * 2^P + c + (x mod p)
/// export:         emitted words, then the non-zero words of x, least significant first
/// ```
#[derive(Clone, Debug)]
pub struct RefAns {
    pub s: u32,
    pub w: u32,
    pub x: u128,
    pub out: Vec<u128>,
}

impl RefAns {
    pub fn new(s: u32, w: u32) -> Self {
        RefAns { s, w, x: 0, out: Vec::new() }
    }
    fn wmask(&self) -> u128 {
        if self.w == 128 { u128::MAX } else { (1u128 << self.w) - 1 }
    }
    pub fn push(&mut self, c: u64, p: u64, prec: u32) {
        // x >= p << (s - prec)  <=>  (x >> (s - prec)) >= p   (the shifted-out bits of the rhs are zero)
        if (self.x >> (self.s - prec)) >= p as u128 {
            self.out.push(self.x & self.wmask());
            self.x >>= self.w;
        }
        self.x = ((self.x / p as u128) << prec) | (self.x % p as u128 + c as u128);
    }
    /// Inverse of `push`: returns the quantile that identifies the symbol.
    pub fn peek_quantile(&self, prec: u32) -> u64 {
        (self.x & ((1u128 << prec) - 1)) as u64
    }
    pub fn pop(&mut self, c: u64, p: u64, prec: u32) {
        let q = self.x & ((1u128 << prec) - 1);
        self.x = (self.x >> prec) * p as u128 + (q - c as u128);
        if self.x < 1u128 << (self.s - self.w) {
            if let Some(wd) = self.out.pop() {
                self.x = (self.x << self.w) | wd;
            }
        }
    }
    pub fn export(&self) -> Vec<u128> {
        let mut v = self.out.clone();
        let mut x = self.x;
        while x != 0 {
            v.push(x & self.wmask());
            x >>= self.w;
        }
        v
    }
}

/// Carry-propagating range coder (Martin 1979 / Schindler style): every renormalisation
/// word is emitted immediately; when `low` overflows, the carry is added *into the words
/// already emitted* (0xff.. -> 0x00.. ripple).
///
/// `seal` follows the sealing rule of `notes/range-coding.md`, stated on (low, range)
/// only: emit the top word of `point = low + 2^(s-w) - 1`; then emit zero words until
/// every continuation of the emitted words stays below `low + range` (for `s = 2w` this is
/// exactly "one zero word iff the top words of `upper` and `point` coincide").
#[derive(Clone, Debug)]
pub struct RefRange {
    pub s: u32,
    pub w: u32,
    pub low: u128,
    pub range: u128,
    pub out: Vec<u128>,
    pub any: bool,
    pub carries: u32,
}

#[derive(Debug)]
pub struct CarryOutOfFirstWord;

impl RefRange {
    pub fn new(s: u32, w: u32) -> Self {
        let range = if s == 128 { u128::MAX } else { (1u128 << s) - 1 };
        RefRange { s, w, low: 0, range, out: Vec::new(), any: false, carries: 0 }
    }
    fn smask(&self) -> u128 {
        if self.s == 128 { u128::MAX } else { (1u128 << self.s) - 1 }
    }
    fn carry(out: &mut [u128], w: u32) -> Result<(), CarryOutOfFirstWord> {
        let max = (1u128 << w) - 1;
        let mut i = out.len();
        loop {
            if i == 0 {
                return Err(CarryOutOfFirstWord);
            }
            i -= 1;
            if out[i] == max {
                out[i] = 0;
            } else {
                out[i] += 1;
                return Ok(());
            }
        }
    }
    /// low + add (mod 2^s), reporting the carry
    fn add_low(&self, add: u128) -> (u128, bool) {
        if self.s == 128 {
            self.low.overflowing_add(add)
        } else {
            let v = self.low + add;
            (v & self.smask(), v >> self.s != 0)
        }
    }
    pub fn push(&mut self, c: u64, p: u64, prec: u32) -> Result<(), CarryOutOfFirstWord> {
        self.any = true;
        let scale = self.range >> prec;
        let (low, carry) = self.add_low(scale * c as u128);
        self.low = low;
        self.range = scale * p as u128;
        if carry {
            self.carries += 1;
            Self::carry(&mut self.out, self.w)?;
        }
        while self.range < 1u128 << (self.s - self.w) {
            self.out.push(self.low >> (self.s - self.w));
            self.low = (self.low << self.w) & self.smask();
            self.range <<= self.w;
        }
        Ok(())
    }
    /// Number of words the encoder has irrevocably decided *or* tentatively emitted.
    pub fn emitted(&self) -> usize {
        self.out.len()
    }
    /// The sealed stream. `extended_rule = false` gives the literal documented rule (at
    /// most one zero word); `true` adds further zero words for `s > 2w` when needed.
    pub fn sealed(&self, extended_rule: bool) -> Result<Vec<u128>, CarryOutOfFirstWord> {
        let mut out = self.out.clone();
        if !self.any {
            return Ok(out);
        }
        let t = 1u128 << (self.s - self.w);
        let (point, carry) = self.add_low(t - 1);
        if carry {
            Self::carry(&mut out, self.w)?;
        }
        let pw = point >> (self.s - self.w);
        out.push(pw);
        // distance from lower to the smallest value the decoder can read: pw * 2^(s-w) - low (mod 2^s)
        let base = (pw << (self.s - self.w)).wrapping_sub(self.low) & self.smask();
        // (the distance is < 2^(s-w) <= range, so the all-zero continuation is inside the interval)
        let upper_word = self.add_low(self.range).0 >> (self.s - self.w);
        if upper_word == pw {
            out.push(0);
            if extended_rule {
                // after j zero words the largest continuation is base + 2^(s-(j+1)w) - 1
                let mut j = 1;
                while (j + 1) * self.w < self.s
                    && base + ((1u128 << (self.s - (j + 1) * self.w)) - 1) >= self.range
                {
                    out.push(0);
                    j += 1;
                }
            }
        }
        Ok(out)
    }
}

/// Range *decoder* reference: the decoded symbol sequence for `words` (zero-extended),
/// given per-symbol lookup closures.  Used by C11 to decide what a stream *means*.
pub struct RefRangeDecoder {
    pub s: u32,
    pub w: u32,
    pub low: u128,
    pub range: u128,
    pub point: u128,
    pub pos: usize,
}

impl RefRangeDecoder {
    pub fn new(s: u32, w: u32, words: &[u128]) -> Self {
        let mut d = RefRangeDecoder {
            s,
            w,
            low: 0,
            range: if s == 128 { u128::MAX } else { (1u128 << s) - 1 },
            point: 0,
            pos: 0,
        };
        for _ in 0..s / w {
            d.point = d.shl_w(d.point) | d.next(words);
        }
        d
    }
    fn smask(&self) -> u128 {
        if self.s == 128 { u128::MAX } else { (1u128 << self.s) - 1 }
    }
    fn shl_w(&self, x: u128) -> u128 {
        (x << self.w) & self.smask()
    }
    fn next(&mut self, words: &[u128]) -> u128 {
        let v = words.get(self.pos).copied().unwrap_or(0);
        self.pos += 1;
        v
    }
    /// quantile of the next symbol at precision `prec`, or None if >= 2^prec (invalid data)
    pub fn quantile(&self, prec: u32) -> Option<u64> {
        let scale = self.range >> prec;
        let q = (self.point.wrapping_sub(self.low) & self.smask()) / scale;
        if q >> prec != 0 {
            None
        } else {
            Some(q as u64)
        }
    }
    pub fn consume(&mut self, c: u64, p: u64, prec: u32, words: &[u128]) {
        let scale = self.range >> prec;
        self.low = self.low.wrapping_add(scale * c as u128) & self.smask();
        self.range = scale * p as u128;
        if self.range < 1u128 << (self.s - self.w) {
            self.low = self.shl_w(self.low);
            self.range <<= self.w;
            self.point = self.shl_w(self.point) | self.next(words);
        }
    }
}
