//! Byte-level shrinker (Hypothesis style): delete blocks, zero blocks, lower bytes.
//! Because decoding is total, every candidate is a valid case; a candidate is kept only
//! if `test` says it reproduces *the same violation signature*.

pub struct ShrinkStats {
    pub evals: usize,
    pub accepted: usize,
}

fn strip(mut v: Vec<u8>) -> Vec<u8> {
    while v.last() == Some(&0) {
        v.pop();
    }
    v
}

pub fn shrink(
    start: &[u8],
    budget: usize,
    mut test: impl FnMut(&[u8]) -> bool,
) -> (Vec<u8>, ShrinkStats) {
    let mut cur = strip(start.to_vec());
    let mut st = ShrinkStats { evals: 0, accepted: 0 };
    macro_rules! attempt {
        ($cand:expr) => {{
            let cand: Vec<u8> = strip($cand);
            if st.evals >= budget {
                false
            } else if cand.len() > cur.len() || (cand.len() == cur.len() && cand >= cur) {
                false
            } else {
                st.evals += 1;
                if test(&cand) {
                    cur = cand;
                    st.accepted += 1;
                    true
                } else {
                    false
                }
            }
        }};
    }
    // The stripped start must still fail (trailing zeros are equivalent to truncation).
    loop {
        let before = cur.clone();
        // 1. truncate (binary search on the tail)
        let mut cut = cur.len() / 2;
        while cut >= 1 {
            if cur.len() > cut {
                let keep = cur.len() - cut;
                if !attempt!(cur[..keep].to_vec()) {
                    cut /= 2;
                }
            } else {
                cut /= 2;
            }
        }
        // 2. delete blocks
        for &bs in &[32usize, 16, 8, 4, 2, 1] {
            let mut i = 0;
            while i + bs <= cur.len() {
                let mut cand = cur.clone();
                cand.drain(i..i + bs);
                if !attempt!(cand) {
                    i += bs.max(1);
                }
            }
        }
        // 3. zero blocks
        for &bs in &[8usize, 4, 2] {
            let mut i = 0;
            while i + bs <= cur.len() {
                if cur[i..i + bs].iter().any(|&b| b != 0) {
                    let mut cand = cur.clone();
                    for b in &mut cand[i..i + bs] {
                        *b = 0;
                    }
                    attempt!(cand);
                }
                i += bs;
            }
        }
        // 4. lower single bytes
        let mut i = 0;
        while i < cur.len() {
            if cur[i] != 0 {
                let orig = cur[i];
                let mut cand = cur.clone();
                cand[i] = 0;
                if !attempt!(cand) {
                    // binary descent
                    let mut lo = 0u8; // known not to work (or untested 0)
                    let mut hi = orig; // works
                    while hi - lo > 1 && st.evals < budget {
                        let mid = lo + (hi - lo) / 2;
                        if i >= cur.len() {
                            break;
                        }
                        let mut cand = cur.clone();
                        cand[i] = mid;
                        if attempt!(cand) {
                            hi = mid;
                        } else {
                            lo = mid;
                        }
                    }
                }
            }
            i += 1;
        }
        if cur == before || st.evals >= budget {
            break;
        }
    }
    (cur, st)
}
