//! Generators for model inputs: float tables (valid and hostile), fixed-point tables.

use vengine::Src;

/// A non-negative float table with positive finite sum (valid input for the float
/// constructors), from a mixture of shapes: integers, zeros in every position, denormals,
/// one dominant entry with a tail many decades smaller, near-equal values, huge values.
pub fn valid_float_table(src: &mut Src, n: usize) -> Vec<f64> {
    let style = src.below(8);
    let mut v: Vec<f64> = (0..n)
        .map(|i| match style {
            0 => src.below(10) as f64,
            1 => (1 + src.below(1000)) as f64,
            2 => {
                // dominant head, tail 10..320 decades smaller
                if i == 0 { 1.0 } else { 10f64.powi(-(10 + src.below(310) as i32)) * (1 + src.below(9)) as f64 }
            }
            3 => 1.0 + src.below(4) as f64 * 1e-9,
            4 => f64::MIN_POSITIVE * src.below(8) as f64 / 4.0, // denormals and tiny normals
            5 => 1e300 * (src.below(1000) as f64 / 1000.0),
            6 => {
                if src.ratio(2, 3) { 0.0 } else { src.unit_f64() }
            }
            _ => src.unit_f64() * 10f64.powi(src.below(12) as i32 - 6),
        })
        .collect();
    // zeros in chosen positions
    match src.below(6) {
        0 => v[0] = 0.0,
        1 => v[n - 1] = 0.0,
        2 => {
            let k = src.below_usize(n);
            v[k] = 0.0;
        }
        3 => {
            // all but one
            let keep = src.below_usize(n);
            for (i, x) in v.iter_mut().enumerate() {
                if i != keep {
                    *x = 0.0;
                }
            }
        }
        _ => {}
    }
    let sum: f64 = v.iter().sum();
    if !(sum.is_normal() && sum > 0.0) {
        // make it valid by construction: one entry carries positive normal mass
        let k = src.below_usize(n);
        for x in v.iter_mut() {
            if !x.is_finite() || *x > 1e290 {
                *x = 1.0;
            }
        }
        v[k] = 1.0 + src.below(5) as f64;
    }
    v
}

/// valid for f32 as well: the f32 images are non-negative with positive normal sum
pub fn to_f32_valid(v: &[f64]) -> Vec<f32> {
    let mut w: Vec<f32> = v.iter().map(|&x| if x > 1e30 { 1e30 } else { x as f32 }).collect();
    let sum: f32 = w.iter().sum();
    if !(sum.is_normal() && sum > 0.0) {
        w[0] = 1.0;
        for x in w.iter_mut() {
            if !x.is_finite() {
                *x = 1.0;
            }
        }
    }
    w
}

/// Any float table whatsoever (C19): lengths 0.., entries from {normal, 0, -0, negative,
/// tiny negative, NaN, +-inf, denormal, huge}.
pub fn hostile_float_table(src: &mut Src, max_n: usize) -> Vec<f64> {
    let n = match src.below(6) {
        0 => 0,
        1 => 1,
        2 => 2,
        _ => src.below_usize(max_n + 1),
    };
    let hostile_rate = 1 + src.below(6);
    (0..n)
        .map(|_| {
            if src.below(8) < hostile_rate {
                match src.below(10) {
                    0 => 0.0,
                    1 => -0.0,
                    2 => -(src.unit_f64()),
                    3 => -1e-30,
                    4 => f64::NAN,
                    5 => f64::INFINITY,
                    6 => f64::NEG_INFINITY,
                    7 => f64::MIN_POSITIVE / 2.0,
                    8 => 1e308,
                    _ => -1e308,
                }
            } else {
                src.unit_f64() * (1 + src.below(100)) as f64
            }
        })
        .collect()
}

/// A composition of 2^prec into n >= 2 positive parts (valid fixed-point table).
pub fn valid_fixed_table(src: &mut Src, prec: u32, max_n: usize) -> Vec<u64> {
    let total = 1u64 << prec;
    let n = (2 + src.below_usize(max_n.max(2) - 1)).min(total as usize);
    // n-1 distinct cut points in 1..total, by construction
    let mut cuts: Vec<u64> = match src.below(4) {
        0 => (0..n - 1).map(|_| 1 + src.below(total - 1)).collect(),
        1 => (0..n - 1).map(|_| 1 + src.below((total - 1).min(8))).collect(),
        2 => (0..n - 1).map(|_| total - 1 - src.below((total - 1).min(8))).collect(),
        _ => (1..n as u64).map(|i| i * (total / n as u64).max(1)).collect(),
    };
    cuts.retain(|&c| c >= 1 && c < total);
    cuts.sort_unstable();
    cuts.dedup();
    if cuts.is_empty() {
        cuts.push(total / 2);
    }
    let mut parts = Vec::with_capacity(cuts.len() + 1);
    let mut prev = 0;
    for c in cuts {
        parts.push(c - prev);
        prev = c;
    }
    parts.push(total - prev);
    parts
}

/// Any fixed-point table whatsoever (C19), values below 2^bits.
pub fn hostile_fixed_table(src: &mut Src, prec: u32, bits: u32, max_n: usize) -> Vec<u64> {
    let total = 1u64 << prec;
    let tmax = if bits >= 64 { u64::MAX } else { (1u64 << bits) - 1 };
    match src.below(8) {
        0 => Vec::new(),
        1 => vec![total & tmax],                   // a single symbol with all the mass (wraps to 0 at P == bits)
        2 => vec![0],
        3 => {
            // valid table with one entry perturbed
            let mut v = valid_fixed_table(src, prec, max_n);
            let k = src.below_usize(v.len());
            v[k] = match src.below(4) {
                0 => 0,
                1 => v[k].wrapping_add(1) & tmax,
                2 => v[k].wrapping_sub(1) & tmax,
                _ => tmax,
            };
            v
        }
        4 => {
            // exactly one or two laps at P == bits, or sums above 2^P
            let mut v = valid_fixed_table(src, prec, max_n);
            let extra = valid_fixed_table(src, prec, max_n);
            v.extend(extra);
            v
        }
        5 => {
            // valid table with a zero inserted
            let mut v = valid_fixed_table(src, prec, max_n);
            let k = src.below_usize(v.len() + 1);
            v.insert(k, 0);
            v
        }
        6 => valid_fixed_table(src, prec, max_n), // valid, for the infer_last_probability paths
        _ => (0..src.below_usize(max_n + 1)).map(|_| src.wordish(bits) & tmax).collect(),
    }
}
