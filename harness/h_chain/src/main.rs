fn main() {
    vengine::main(&h_chain::targets());
}
