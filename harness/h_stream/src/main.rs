fn main() {
    vengine::main(&h_stream::targets());
}
