//! Harness binary for the entropy models (C03, C05, C18 diagnostics, C19).

mod cat;
mod gen;
mod leaky;
mod validate;

use vengine::{PanicPolicy, Target};

fn main() {
    let targets = [
        Target { name: "categorical", props: "C03 C05 C18 C19 (param selects the property)", policy: PanicPolicy::AllViolations, max_len: 2048, run: cat::categorical },
        Target { name: "leaky", props: "C03 C05 C18 C19 (param selects the property)", policy: PanicPolicy::AllViolations, max_len: 2048, run: leaky::leaky },
    ];
    vengine::main(&targets);
}
