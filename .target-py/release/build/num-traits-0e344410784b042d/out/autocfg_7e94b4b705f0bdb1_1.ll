; ModuleID = 'autocfg_7e94b4b705f0bdb1_1.baf1b6ffc862aaf-cgu.0'
source_filename = "autocfg_7e94b4b705f0bdb1_1.baf1b6ffc862aaf-cgu.0"
target datalayout = "e-m:e-p270:32:32-p271:32:32-p272:64:64-i64:64-i128:128-f80:128-n8:16:32:64-S128"
target triple = "x86_64-unknown-linux-gnu"

@alloc_f93507f8ba4b5780b14b2c2584609be0 = private unnamed_addr constant [8 x i8] c"\00\00\00\00\00\00\F0?", align 8
@alloc_ef0a1f828f3393ef691f2705e817091c = private unnamed_addr constant [8 x i8] c"\00\00\00\00\00\00\00@", align 8

; autocfg_7e94b4b705f0bdb1_1::probe
; Function Attrs: nonlazybind uwtable
define void @_ZN26autocfg_7e94b4b705f0bdb1_15probe17hd59cbc9f1c386021E() unnamed_addr #0 {
start:
; call core::f64::<impl f64>::total_cmp
  %_1 = call i8 @"_ZN4core3f6421_$LT$impl$u20$f64$GT$9total_cmp17hc3c51c553dfeb780E"(ptr align 8 @alloc_f93507f8ba4b5780b14b2c2584609be0, ptr align 8 @alloc_ef0a1f828f3393ef691f2705e817091c) #3
  ret void
}

; core::f64::<impl f64>::total_cmp
; Function Attrs: inlinehint nonlazybind uwtable
define internal i8 @"_ZN4core3f6421_$LT$impl$u20$f64$GT$9total_cmp17hc3c51c553dfeb780E"(ptr align 8 %self, ptr align 8 %other) unnamed_addr #1 {
start:
  %_6 = alloca [8 x i8], align 8
  %_3 = alloca [8 x i8], align 8
  %_5 = load double, ptr %self, align 8
  %_4 = bitcast double %_5 to i64
  store i64 %_4, ptr %_3, align 8
  %_8 = load double, ptr %other, align 8
  %_7 = bitcast double %_8 to i64
  store i64 %_7, ptr %_6, align 8
  %_13 = load i64, ptr %_3, align 8
  %_12 = ashr i64 %_13, 63
  %_10 = lshr i64 %_12, 1
  %0 = load i64, ptr %_3, align 8
  %1 = xor i64 %0, %_10
  store i64 %1, ptr %_3, align 8
  %_18 = load i64, ptr %_6, align 8
  %_17 = ashr i64 %_18, 63
  %_15 = lshr i64 %_17, 1
  %2 = load i64, ptr %_6, align 8
  %3 = xor i64 %2, %_15
  store i64 %3, ptr %_6, align 8
  %4 = load i64, ptr %_3, align 8
  %5 = load i64, ptr %_6, align 8
  %_0 = call i8 @llvm.scmp.i8.i64(i64 %4, i64 %5)
  ret i8 %_0
}

; Function Attrs: nocallback nocreateundeforpoison nofree nosync nounwind speculatable willreturn memory(none)
declare range(i8 -1, 2) i8 @llvm.scmp.i8.i64(i64, i64) #2

attributes #0 = { nonlazybind uwtable "probe-stack"="inline-asm" "target-cpu"="x86-64" }
attributes #1 = { inlinehint nonlazybind uwtable "probe-stack"="inline-asm" "target-cpu"="x86-64" }
attributes #2 = { nocallback nocreateundeforpoison nofree nosync nounwind speculatable willreturn memory(none) }
attributes #3 = { inlinehint }

!llvm.module.flags = !{!0, !1}
!llvm.ident = !{!2}

!0 = !{i32 8, !"PIC Level", i32 2}
!1 = !{i32 2, !"RtLibUseGOT", i32 1}
!2 = !{!"rustc version 1.95.0 (59807616e 2026-04-14)"}
