#!/usr/bin/env python3
"""Print the prompt for a fresh sub-agent that is to write a seeded breaking change.
usage: tools/seed_prompt.py <ID> <suffix> [hint...]
The prompt contains the property (as given in properties.jsonl), the location of the agent's own scratch
worktree, one-line summaries of the changes earlier agents wrote for the same property (so that the new one
differs), and nothing about /verif's machinery."""
import json, sys, os, glob
ROOT = os.path.dirname(os.path.dirname(os.path.abspath(__file__)))
args = [a for a in sys.argv[1:] if a != "--py"]
PY = "--py" in sys.argv
pid, suf = args[0], args[1]
hint = " ".join(args[2:])
p = next(json.loads(l) for l in open(os.path.join(ROOT, "properties.jsonl")) if json.loads(l)["id"] == pid)
prev = []
for d in sorted(glob.glob(os.path.join(ROOT, "seeded", pid + "*"))):
    try:
        m = json.load(open(os.path.join(d, "meta.json")))
        s = (m.get("summary") or m.get("change") or "")[:420].replace("\n", " ")
        prev.append("- " + s)
    except Exception:
        pass
name = pid + suf
if PY:
    print(f"""You are helping to evaluate a test-generation effort for the Rust crate `constriction` (entropy coders with Python bindings under src/pybindings, built with pyo3). Your job is to play the role of a developer who introduces a subtle regression IN THE PYTHON FRONT END.

Your own scratch git worktree of the repository is at /tmp/wt/{name} (already created, at the right commit). Work ONLY inside /tmp/wt/{name}. Do not read, list or modify /repo or /verif. The sandbox has no network: always pass --offline to cargo and always set CARGO_TARGET_DIR=/tmp/wt/{name}/target.
Build the Python module with
  PYO3_PYTHON=/opt/veriftools/pyvenv/bin/python CARGO_TARGET_DIR=/tmp/wt/{name}/target cargo build --release --features pybindings --offline
  mkdir -p /tmp/wt/{name}/pymod && cp /tmp/wt/{name}/target/release/libconstriction.so /tmp/wt/{name}/pymod/constriction.so
and run Python code with  PYTHONPATH=/tmp/wt/{name}/pymod /opt/veriftools/pyvenv/bin/python your_script.py  (numpy is available there).

THE PROPERTY, as a Python user experiences it through the wrapper classes (this is all you are told about what will be checked):

  id: {p['id']}
  title: {p['title']}
  statement: {p['statement']}
  quantifier: {p['quantifier']['text']}

TASK. Make ONE small, realistic change inside src/pybindings/** (the wrapper code: argument handling, the scalar / array / model-family call forms, reversal of symbols and parameters, length checks, seal / unseal, position conversion, cloning ...; NOT the Rust core in src/stream or src/symbol) that BREAKS this property for Python users, such that
  (a) the crate still compiles with and without the `pybindings` feature, and `cargo test --workspace --no-fail-fast --offline` still passes;
  (b) the documented Python examples still work: run  PYTHONPATH=/tmp/wt/{name}/pymod /opt/veriftools/pyvenv/bin/python -m pytest -q tests/python  if pytest is available there, otherwise at least execute the examples in the doc comments of the class you touch by hand;
  (c) the change looks like something a maintainer could plausibly write (refactoring slip, off-by-one, wrong flag, mis-ordered statements, two call forms that disagree), not sabotage;
  (d) the violation needs something SPECIFIC to manifest (a particular call form, a particular combination of arguments, a particular sequence of calls), not the very first ordinary use.
{('HINT for where to look: ' + hint) if hint else ''}

DELIVERABLES, all in /tmp/wt/{name}/_seeded/ (create the directory):
  1. patch.diff — `git diff -- src` of your change.
  2. seeded_demo.py — a self-contained Python script (imports numpy and constriction only) that exits 0 on the unchanged source and exits non-zero (failed assertion) with your change, demonstrating the violation of the property as stated.
  3. meta.json — {{"property": "{p['id']}", "summary": "<what you changed, where>", "needs": "<what exactly is needed for the violation to manifest>", "files_changed": [...], "ran": ["<commands you ran and their outcome>"]}}

Verify yourself: module built from the changed source -> demo fails; module built from the unchanged source (git stash) -> demo passes; cargo test passes with the change. Leave the worktree with the change applied; do not commit. Reply with a 5-line summary.""")
    sys.exit(0)
print(f"""You are helping to evaluate a test-generation effort for the Rust crate `constriction` (entropy coders: rANS stack coder, range coder, chain coder, Huffman / bit-level coders, fixed-point entropy models; Python bindings under src/pybindings). Your job is to play the role of a developer who introduces a subtle regression.

Your own scratch git worktree of the repository is at /tmp/wt/{name} (already created, at the right commit). Work ONLY inside /tmp/wt/{name}. Do not read, list or modify /repo or /verif (or anything else outside your worktree besides the Rust toolchain and the cargo registry). The sandbox has no network: always pass --offline to cargo (e.g. `CARGO_TARGET_DIR=/tmp/wt/{name}/target cargo test --offline ...`). Always set CARGO_TARGET_DIR=/tmp/wt/{name}/target so that your build output stays in your worktree.

THE PROPERTY (this is all you are told about what will be checked):

  id: {p['id']}
  title: {p['title']}
  statement: {p['statement']}
  quantifier: {p['quantifier']['text']}
  anchored files: {', '.join(p['anchors']['files'])}
  mechanisms: {'; '.join(m['name'] + ' (' + m['where'] + ')' for m in p['anchors']['mechanism'])}

TASK. Make ONE small, realistic change to the library source (src/**, not tests, not benches, not docs) that BREAKS this property, such that
  (a) the crate still compiles (no new warnings that would fail a build) and the COMPLETE existing test suite still passes: `cargo test --workspace --no-fail-fast --offline` (unit tests, integration tests in tests/, doc tests) — run it and check;
  (b) the change looks like something a maintainer could plausibly write (a refactoring slip, an 'optimisation', an off-by-one, a wrong comparison, a forgotten case, a mis-ordered pair of statements, two sites that each look fine alone but disagree) — not sabotage such as `if x == 12345`;
  (c) the violation needs something SPECIFIC to manifest — a particular multi-step sequence of operations, an unusual but legal input or type configuration (word/state widths, PRECISION, symbol/probability types, backend type), a particular internal situation, an error path, or two cooperating sites — NOT something that ordinary use (encode a few symbols, decode them) would expose at once.

Earlier developers already wrote the following changes for this property. Yours must differ from ALL of them in site (function) and in mechanism; prefer code regions none of them touched:
{chr(10).join(prev) if prev else '- (none yet)'}
{('HINT for where to look: ' + hint) if hint else ''}

DELIVERABLES, all in /tmp/wt/{name}/_seeded/ (create the directory):
  1. patch.diff — `git diff -- src` of your change (must apply with `git apply` to a clean checkout).
  2. seeded_demo.rs — a self-contained integration test file (it will be copied to tests/seeded_demo.rs; use only the crate's public API and its existing dev-dependencies) with one or more #[test] functions that PASS on the unchanged source and FAIL with your change. It demonstrates the violation of the property as stated above (not merely 'some output differs').
  3. meta.json — {{"property": "{p['id']}", "summary": "<what you changed, where>", "needs": "<what exactly is needed for the violation to manifest, and why the existing tests do not notice>", "files_changed": [...], "ran": ["<commands you ran and their outcome>"]}}

Before you finish, verify yourself: (1) with the change, the full existing suite passes (move your demo out of tests/ for that run, or run it separately); (2) tests/seeded_demo.rs fails with the change; (3) after `git stash` / reverting src, the demo passes; then re-apply the change and regenerate patch.diff. Leave the worktree with the change applied. Do not commit anything. When done, reply with a 5-line summary: the change, what it needs, and the outcome of the three verification runs. If, while reading the code, you notice something that already looks like a genuine bug related to this property in the unchanged source, mention it in one extra line.""")
