//! C08 — inspecting a coder never changes what it will output (ANS coder and range
//! encoder; the bit-level coders are covered by `h_symbol`).
//!
//! Twin histories: the same encode sequence is applied to a coder A, with inspections
//! inserted at generated points (any number, also on the empty coder and directly after a
//! word boundary), and to an untouched twin B.
//!
//! Oracle: (1) every view equals what finishing a clone at that moment returns; (2) size
//! queries before and after the inspection agree; (3) after every inspection A's raw parts
//! equal B's; (4) the final outputs of A and B are identical.

use constriction::stream::queue::{EncoderSituation, RangeEncoder};
use constriction::stream::stack::AnsCoder;
use constriction::stream::{Code, Decode, Encode};
use constriction::{Pos, UnwrapInfallible};
use hcommon::{gen_tab, gen_words, hexwords, Tab};
use vengine::{note, vassume, vcheck, vfail, CaseResult, Ctx, Src};

macro_rules! precs {
    ([$(($Pr:ty, $P:literal)),+]) => { [$($P as u32),+] };
}

macro_rules! c08_ans_row {
    ($name:ident, $label:literal, $W:ty, $S:ty, $plist:tt) => {
        pub fn $name(src: &mut Src, ctx: &mut Ctx) -> CaseResult {
            type Coder = AnsCoder<$W, $S, Vec<$W>>;
            const PRECS: &[u32] = &precs!($plist);
            ctx.label(concat!("cfg:", $label));
            note!(ctx, "cfg {} (ANS)", $label);
            let wbits = <$W>::BITS;
            let data: Vec<$W> = gen_words(src, wbits, 5).into_iter().map(|x| x as $W).collect();
            let mut a: Coder = match src.below(3) {
                0 => Coder::new(),
                1 => {
                    let mut d = data.clone();
                    if let Some(l) = d.last_mut() {
                        if *l == 0 {
                            *l = 1;
                        }
                    }
                    match Coder::from_compressed(d) {
                        Ok(c) => c,
                        Err(_) => { ctx.discard("foreign:C01/import_rejected"); return Ok(()); }
                    }
                }
                _ => {
                    note!(ctx, "start from_binary({})", hexwords(&data));
                    Coder::from_binary(data.clone()).unwrap_infallible()
                }
            };
            let mut b = a.clone();
            let mut msg: Vec<(usize, Tab)> = Vec::new();
            let max_syms = if ctx.tier == 0 { 40 } else { 400 };
            let mut cur_sel: u8 = src.below(PRECS.len() as u64) as u8;
            let mut steps = 0;
            let mut just_flushed = false;
            while steps < 3 * max_syms && msg.len() < max_syms && !src.is_empty() {
                steps += 1;
                if src.ratio(3, 5) {
                    if src.ratio(1, 4) {
                        cur_sel = src.below(PRECS.len() as u64) as u8;
                    }
                    let tab = gen_tab(src, PRECS[cur_sel as usize], cur_sel, 8);
                    let sym = src.below_usize(tab.n());
                    note!(ctx, "encode sym={} {}", sym, tab.render());
                    let lb = a.bulk().len();
                    let r = with_prec!(tab.sel, $plist, |M| a.encode_symbol(sym, M::new(&tab)));
                    vassume!(ctx, r.is_ok(), "foreign:C01/encode_failed");
                    let r = with_prec!(tab.sel, $plist, |M| b.encode_symbol(sym, M::new(&tab)));
                    vassume!(ctx, r.is_ok(), "foreign:C01/encode_failed");
                    just_flushed = a.bulk().len() > lb;
                    msg.push((sym, tab));
                    continue;
                }
                // ---- an inspection of A ------------------------------------------------
                let expect: Vec<$W> = a.clone().into_compressed().unwrap_infallible();
                let sizes = (a.num_words(), a.num_bits(), a.num_valid_bits(), a.is_empty());
                ctx.label_if(just_flushed, "inspect_directly_after_flush");
                ctx.label_if(expect.is_empty(), "inspect_empty_coder");
                if just_flushed || expect.is_empty() || !a.bulk().is_empty() {
                    ctx.nontrivial();
                }
                let kind = src.below(9);
                note!(ctx, "inspect kind {} (export {})", kind, hexwords(&expect));
                match kind {
                    0 => {
                        ctx.label("inspect:get_compressed");
                        match a.get_compressed() {
                            Ok(g) => {
                                let v: &Vec<$W> = &*g;
                                vcheck!(*v == expect, "C08/ans_get_compressed_view", "get_compressed shows {} but into_compressed would return {}", hexwords(v), hexwords(&expect));
                            }
                            Err(e) => match e {},
                        };
                    }
                    1 => {
                        ctx.label("inspect:get_binary");
                        let exp_bin = a.clone().into_binary();
                        match a.get_binary() {
                            Ok(g) => {
                                ctx.label("inspect:get_binary_ok");
                                let v: &Vec<$W> = &*g;
                                match &exp_bin {
                                    Ok(e) => vcheck!(v == e, "C08/ans_get_binary_view", "get_binary shows {} but into_binary would return {}", hexwords(v), hexwords(e)),
                                    Err(_) => vfail!("C08/ans_get_binary_ok_but_into_binary_err", "get_binary shows {} but into_binary fails", hexwords(v)),
                                }
                            }
                            Err(_) => vcheck!(exp_bin.is_err(), "C08/ans_get_binary_err_but_into_binary_ok", "get_binary fails but into_binary returns {:?}", exp_bin.as_ref().map(|v| hexwords(v))),
                        };
                    }
                    2 => {
                        ctx.label("inspect:iter_compressed");
                        let v: Vec<$W> = a.iter_compressed().collect();
                        vcheck!(v == expect, "C08/ans_iter_compressed_view", "iter_compressed yields {} but into_compressed would return {}", hexwords(&v), hexwords(&expect));
                    }
                    3 => {
                        ctx.label("inspect:as_decoder");
                        let mut d = a.as_decoder();
                        for (sym, tab) in msg.iter().rev().take(3) {
                            let r = with_prec!(tab.sel, $plist, |M| d.decode_symbol(M::new(tab)).ok());
                            vcheck!(r == Some(*sym), "C08/ans_as_decoder_view", "temporary decoder decoded {:?} instead of {}", r, sym);
                        }
                    }
                    4 => {
                        ctx.label("inspect:as_seekable_decoder");
                        let mut d = a.as_seekable_decoder();
                        for (sym, tab) in msg.iter().rev().take(3) {
                            let r = with_prec!(tab.sel, $plist, |M| d.decode_symbol(M::new(tab)).ok());
                            vcheck!(r == Some(*sym), "C08/ans_as_decoder_view", "temporary seekable decoder decoded {:?} instead of {}", r, sym);
                        }
                    }
                    5 => {
                        ctx.label("inspect:clone");
                        let c = a.clone();
                        let v = c.into_compressed().unwrap_infallible();
                        vcheck!(v == expect, "C08/ans_clone_differs", "clone exports {} original {}", hexwords(&v), hexwords(&expect));
                    }
                    6 => {
                        ctx.label("inspect:pos_state");
                        let _ = (a.pos(), a.state(), a.bulk().len());
                    }
                    7 => {
                        ctx.label("inspect:get_compressed_twice");
                        for _ in 0..2 {
                            match a.get_compressed() {
                                Ok(g) => {
                                    let v: &Vec<$W> = &*g;
                                    vcheck!(*v == expect, "C08/ans_get_compressed_view", "get_compressed shows {} but into_compressed would return {}", hexwords(v), hexwords(&expect));
                                }
                                Err(e) => match e {},
                            };
                        }
                    }
                    _ => {
                        ctx.label("inspect:sizes");
                        vcheck!(sizes.0 == expect.len(), "C08/ans_num_words_view", "num_words {} vs export {}", sizes.0, expect.len());
                    }
                }
                let sizes2 = (a.num_words(), a.num_bits(), a.num_valid_bits(), a.is_empty());
                vcheck!(sizes == sizes2, "C08/ans_sizes_changed_by_inspection", "sizes before {:?} after {:?}", sizes, sizes2);
                vcheck!(
                    a.state() == b.state() && a.bulk() == b.bulk(),
                    "C08/ans_inspection_changed_coder",
                    "after inspection kind {}: inspected coder state {:x} bulk {}, untouched twin state {:x} bulk {}",
                    kind,
                    a.state(),
                    hexwords(a.bulk()),
                    b.state(),
                    hexwords(b.bulk())
                );
            }
            let fa = a.into_compressed().unwrap_infallible();
            let fb = b.into_compressed().unwrap_infallible();
            vcheck!(fa == fb, "C08/ans_final_output_differs", "inspected {} untouched {}", hexwords(&fa), hexwords(&fb));
            Ok(())
        }
    };
}

macro_rules! c08_range_row {
    ($name:ident, $label:literal, $W:ty, $S:ty, $plist:tt) => {
        pub fn $name(src: &mut Src, ctx: &mut Ctx) -> CaseResult {
            type Enc = RangeEncoder<$W, $S, Vec<$W>>;
            const PRECS: &[u32] = &precs!($plist);
            ctx.label(concat!("cfg:", $label));
            note!(ctx, "cfg {} (range encoder)", $label);
            let mut a = Enc::new();
            let mut b = Enc::new();
            let mut msg: Vec<(usize, Tab)> = Vec::new();
            let max_syms = if ctx.tier == 0 { 40 } else { 400 };
            let mut cur_sel: u8 = src.below(PRECS.len() as u64) as u8;
            let mut steps = 0;
            while steps < 3 * max_syms && msg.len() < max_syms && !src.is_empty() {
                steps += 1;
                if src.ratio(3, 5) {
                    if src.ratio(1, 4) {
                        cur_sel = src.below(PRECS.len() as u64) as u8;
                    }
                    let tab = gen_tab(src, PRECS[cur_sel as usize], cur_sel, 8);
                    let sym = src.below_usize(tab.n());
                    note!(ctx, "encode sym={} {}", sym, tab.render());
                    let r = with_prec!(tab.sel, $plist, |M| a.encode_symbol(sym, M::new(&tab)));
                    vassume!(ctx, r.is_ok(), "foreign:C02/encode_failed");
                    let r = with_prec!(tab.sel, $plist, |M| b.encode_symbol(sym, M::new(&tab)));
                    vassume!(ctx, r.is_ok(), "foreign:C02/encode_failed");
                    msg.push((sym, tab));
                    continue;
                }
                // ---- an inspection of A ------------------------------------------------
                let expect: Vec<$W> = a.clone().into_compressed().unwrap_infallible();
                let sit = a.clone().into_raw_parts().2;
                let inverted = matches!(sit, EncoderSituation::Inverted(..));
                let seal_words = expect.len() - a.bulk().len();
                ctx.label_if(inverted, "inspect_while_inverted");
                ctx.label_if(seal_words >= 2 && !inverted, "inspect_with_two_seal_words");
                ctx.label_if(seal_words >= 3 && inverted, "inspect_while_inverted_with_two_seal_words");
                ctx.label_if(msg.is_empty(), "inspect_empty_coder");
                if inverted || seal_words >= 2 || msg.is_empty() {
                    ctx.nontrivial();
                }
                let sizes = (a.num_words(), a.num_bits(), a.is_empty(), a.maybe_full());
                let kind = src.below(7);
                note!(ctx, "inspect kind {} (export {}, situation {:?})", kind, hexwords(&expect), sit);
                match kind {
                    0 | 1 => {
                        ctx.label("inspect:get_compressed");
                        for _ in 0..=kind {
                            let g = a.get_compressed();
                            let v: &[$W] = &*g;
                            vcheck!(v == &expect[..], "C08/range_get_compressed_view", "get_compressed shows {} but into_compressed would return {}", hexwords(v), hexwords(&expect));
                        }
                    }
                    2 | 3 => {
                        ctx.label("inspect:decoder");
                        let take = if kind == 2 { 3 } else { msg.len() };
                        let mut d = a.decoder();
                        for (i, (sym, tab)) in msg.iter().enumerate().take(take) {
                            let r = with_prec!(tab.sel, $plist, |M| d.decode_symbol(M::new(tab)).ok());
                            vcheck!(r == Some(*sym), "C08/range_temporary_decoder_view", "temporary decoder decoded symbol {} as {:?} instead of {}", i, r, sym);
                        }
                    }
                    4 => {
                        ctx.label("inspect:clone");
                        let c = a.clone();
                        let v = c.into_compressed().unwrap_infallible();
                        vcheck!(v == expect, "C08/range_clone_differs", "clone exports {} original {}", hexwords(&v), hexwords(&expect));
                    }
                    5 => {
                        ctx.label("inspect:pos_state");
                        let _ = (a.pos(), a.state(), a.bulk().len());
                    }
                    _ => {
                        ctx.label("inspect:sizes");
                        vcheck!(sizes.0 == expect.len(), "C08/range_num_words_view", "num_words {} vs export {} (situation {:?})", sizes.0, expect.len(), sit);
                    }
                }
                let sizes2 = (a.num_words(), a.num_bits(), a.is_empty(), a.maybe_full());
                vcheck!(sizes == sizes2, "C08/range_sizes_changed_by_inspection", "sizes before {:?} after {:?}", sizes, sizes2);
                let (ba, sa, sita) = a.clone().into_raw_parts();
                let (bb, sb, sitb) = b.clone().into_raw_parts();
                vcheck!(
                    ba == bb && sa == sb && sita == sitb,
                    "C08/range_inspection_changed_encoder",
                    "after inspection kind {}: inspected encoder has bulk {} situation {:?}, untouched twin has bulk {} situation {:?}",
                    kind,
                    hexwords(&ba),
                    sita,
                    hexwords(&bb),
                    sitb
                );
            }
            let fa = a.into_compressed().unwrap_infallible();
            let fb = b.into_compressed().unwrap_infallible();
            vcheck!(fa == fb, "C08/range_final_output_differs", "inspected {} untouched {}", hexwords(&fa), hexwords(&fb));
            Ok(())
        }
    };
}

pub mod ans_rows {
    use super::*;
    for_ans_rows!(c08_ans_row);
}
pub mod range_rows {
    use super::*;
    for_ans_rows!(c08_range_row);
}

macro_rules! dispatch {
    ($m:ident, $src:expr, $ctx:expr) => {
        match $src.below(crate::cfg::N_ANS_ROWS as u64) {
            0 => $m::r_u8_u16($src, $ctx),
            1 => $m::r_u8_u32($src, $ctx),
            2 => $m::r_u8_u64($src, $ctx),
            3 => $m::r_u16_u32($src, $ctx),
            4 => $m::r_u16_u64($src, $ctx),
            5 => $m::r_u32_u64($src, $ctx),
            6 => $m::r_u32_u128($src, $ctx),
            _ => $m::r_u64_u128($src, $ctx),
        }
    };
}

pub fn c08_ans(src: &mut Src, ctx: &mut Ctx) -> CaseResult {
    dispatch!(ans_rows, src, ctx)
}
pub fn c08_range(src: &mut Src, ctx: &mut Ctx) -> CaseResult {
    dispatch!(range_rows, src, ctx)
}
