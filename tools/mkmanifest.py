#!/usr/bin/env python3
"""Regenerates /verif/MANIFEST.json from plan.py (claimed checks) and properties.jsonl."""
import json, os, sys
ROOT = os.path.dirname(os.path.dirname(os.path.abspath(__file__)))
sys.path.insert(0, ROOT)
from plan import PLAN, LEVEL_TEXT, TECHNIQUE  # noqa
try:
    from plan import PYPLAN
except ImportError:
    PYPLAN = {}
try:
    from plan import NOT_APPLICABLE
except ImportError:
    NOT_APPLICABLE = {}
try:
    from plan import HOOK_COMMITS
except ImportError:
    HOOK_COMMITS = []

props = [json.loads(l) for l in open(os.path.join(ROOT, "properties.jsonl"))]
checks = []
na = []
for p in props:
    pid = p["id"]
    if pid in PLAN:
        targets = ", ".join(sorted({"%s:%s" % (i["bin"], i["target"]) for i in PLAN[pid]}))
        checks.append({
            "property_id": pid,
            "quick_cmd": "./check %s quick" % pid,
            "thorough_cmd": "./check %s thorough" % pid,
            "evidence_file": "evidence/%s.json" % pid,
            "replay_cmd_template": "./check %s --replay {path}" % pid,
            "engine": "vengine",
            "level_claimed": {
                "category": "exploration",
                "text": LEVEL_TEXT[pid] + "; finds violations on generated cases and shrinks them to a replay file; cannot establish absence",
                "design_ref": "DESIGN.md section 4, %s" % pid,
            },
            "level_note": "trusts the harness's own table model, reference coders and oracles (harness/hcommon) and the checked build "
                          "(opt-level 2 + debug-assertions + overflow-checks) of /repo's working tree; explores the finite configuration grid "
                          "stated in the evidence rule; targets: " + targets
                          + ("; Python front end: pycheck/%s (release build of the extension module from /repo's working tree, Hypothesis)" % PYPLAN[pid]["script"] if pid in PYPLAN else ""),
            "technique": TECHNIQUE[pid] + ("; plus Hypothesis-driven search over %s of the Python front end with reference-model / round-trip oracles, shrunk example as replay file"
                                           % ("model-constructor arguments" if PYPLAN[pid]["script"] == "c19_py.py" else "operation histories of the coder classes") if pid in PYPLAN else ""),
        })
    else:
        na.append({"property_id": pid, "reason": NOT_APPLICABLE.get(pid, "check under construction in this round; not claimed yet (the technique applies, see DESIGN.md section 4)")})

m = {
    "version": 1,
    "setup_cmd": "./check --build",
    "hooks": {
        "guard": "constriction_verif",
        "enable": "no hook code is needed: every observation point is public API. Checks build /repo's working tree as a path dependency of /verif/harness with the checked profile (opt-level 2, debug-assertions, overflow-checks)",
        "baseline_off_cmd": "cd /repo && cargo test --workspace --no-fail-fast --offline",
        "source_commits": HOOK_COMMITS,
        "add_only": True,
    },
    "engines": [{
        "name": "vengine",
        "path": "harness/vengine",
        "serves_properties": sorted(PLAN.keys()),
        "kind_free_text": "seeded byte-string case stream -> arbitrary::Unstructured data provider -> per-property interpreters with explicit oracles; worker-process isolation with panic classification; byte-level shrinker; Python driver ./check; thorough tier adds libFuzzer targets over the same run_case functions",
    }],
    "checks": checks,
    "not_applicable": na,
    "notes": "Known findings and fixed defects: KNOWN_FINDINGS.jsonl. Seeded breaking changes and which check catches them: seeded/ and DESIGN.md.",
}
json.dump(m, open(os.path.join(ROOT, "MANIFEST.json"), "w"), indent=1)
print("MANIFEST.json: %d checks, %d not_applicable" % (len(checks), len(na)))
