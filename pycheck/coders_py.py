#!/usr/bin/env python3
"""The coder classes of the Python front end (src/pybindings/stream/{stack,queue,chain}.rs,
src/pybindings/symbol/*.rs) under generated operation histories.

The Python wrappers contain logic of their own (scalar / i.i.d. / model-family call forms, reversal
of symbols and parameters, length checks, seal / unseal, position conversion).  This script states
the listed properties on what a Python user sees:

  ans     AnsCoder histories  - stack model (C01), reference rANS in pure Python integers fed with the
          model's exact table (C06, batch forms == per-symbol loop C01), bits-back round trip (C04),
          pos / seek (C07), inspections (C08), impossible symbols (C09), arbitrary words (C10),
          size queries (C18)
  range   RangeEncoder / RangeDecoder - FIFO round trip through every call form (C02), reference
          range coder (C06), pos / seek (C07), inspections (C08), impossible symbols (C09),
          arbitrary words (C10), queries (C18)
  chain   ChainCoder - decode, export / re-import in the three documented ways, re-encode, data
          restored (C13); arbitrary words decode to support symbols (C10); impossible symbols (C09)
  symbol  Huffman trees + StackCoder / QueueEncoder / QueueDecoder - LIFO / FIFO (C16), prefix-free,
          complete, optimal, encoder and decoder tree agree (C15), impossible symbols (C09)

The exact fixed-point table of a model is recovered through the coder itself: encoding symbol k on an
EMPTY AnsCoder leaves exactly the left cumulative of k as compressed data (state = 0 -> state = c_k).

An assertion that belongs to another property than the one being checked (--prop) discards the case.

  python3-vt coders_py.py --prop C01 --so-dir D --seed N --cases N --shard K --out result.json
  python3-vt coders_py.py --so-dir D --replay case.json      (exit 1 + "PY-VIOLATION sig :: detail")
"""
import argparse, hashlib, heapq, json, os, signal, sys
from fractions import Fraction

ap = argparse.ArgumentParser()
ap.add_argument("--so-dir", required=True)
ap.add_argument("--prop", default=None)
ap.add_argument("--seed", type=int, default=0)
ap.add_argument("--cases", type=int, default=1000)
ap.add_argument("--shard", type=int, default=0)
ap.add_argument("--out")
ap.add_argument("--replay")
ap.add_argument("--case-timeout", type=int, default=30)
ap.add_argument("--verbose", action="store_true")
A = ap.parse_args()

sys.path.insert(0, A.so_dir)
if not A.verbose:
    devnull = os.open(os.devnull, os.O_WRONLY)
    os.dup2(devnull, 2)

import numpy as np  # noqa: E402
import constriction  # noqa: E402

M = constriction.stream.model
AnsCoder = constriction.stream.stack.AnsCoder
RangeEncoder = constriction.stream.queue.RangeEncoder
RangeDecoder = constriction.stream.queue.RangeDecoder
ChainCoder = constriction.stream.chain.ChainCoder
SYM = constriction.symbol
HUF = constriction.symbol.huffman

PREC, WB, SB = 24, 32, 64
TOTAL = 1 << PREC
WMASK, SMASK = (1 << WB) - 1, (1 << SB) - 1

# which explorers decide which property
EXPLORERS = {
    "C01": ["ans"], "C02": ["range"], "C04": ["ans"], "C06": ["ans", "range"], "C07": ["ans", "range"], "C08": ["ans", "range", "symbol"],
    "C09": ["ans", "range", "chain", "symbol"], "C10": ["ans", "range", "chain"], "C13": ["chain"], "C15": ["symbol"],
    "C16": ["symbol"], "C18": ["ans", "range"],
}


class Violation(Exception):
    def __init__(self, sig, detail):
        super().__init__(sig + ": " + detail)
        self.sig, self.detail = sig, detail


class Discard(Exception):
    pass


LABELS = {}
STATE = {"executed": 0, "nontrivial": 0, "hashes": set(), "samples": [], "counting": True, "last_failure": None, "prop": A.prop}


def label(name):
    if STATE["counting"]:
        LABELS[name] = LABELS.get(name, 0) + 1


def check(prop, cond, sig, detail, observation=False):
    """An assertion owned by `prop`.  Under another property it discards the case - unless it is a pure observation
    (a comparison of what the coder shows with the reference, which does not influence what happens next): then the
    case goes on, so that the running property's own assertions still get their turn."""
    if cond:
        return True
    if prop == STATE["prop"]:
        raise Violation("%s/py/%s" % (prop, sig), detail() if callable(detail) else detail)
    label("foreign:" + prop + "/" + sig)
    if observation:
        return False
    raise Discard()


def u32(words):
    return presented(np.array(words, dtype=np.uint32))


VIEWS = {"seq": [0], "at": 0}


def presented(a):
    """the same values, presented as a contiguous array, as a view with stride -1 or as a view with stride 2 (rank 1),
    or as a transposed / strided view (rank 2): the coder must read what numpy shows, not the memory behind it"""
    mode = VIEWS["seq"][VIEWS["at"] % len(VIEWS["seq"])]
    VIEWS["at"] += 1
    if mode == 0 or a.size == 0:
        return a
    if a.ndim == 1:
        if mode == 1:
            return np.ascontiguousarray(a[::-1])[::-1]
        base = np.zeros(2 * len(a), dtype=a.dtype)
        base[::2] = a
        return base[::2]
    if mode == 1:
        return np.ascontiguousarray(a.T).T
    base = np.zeros((a.shape[0], 2 * a.shape[1]), dtype=a.dtype)
    base[:, ::2] = a
    return base[:, ::2]


def i32(syms):
    return presented(np.array(syms, dtype=np.int32))


# ---- groups of models: one family + several parameter sets -----------------------------------
class Group:
    def __init__(self, spec):
        self.spec = spec
        t = spec["t"]
        self.t = t
        self.k = len(spec["params"])
        if t == "cat":
            dt = np.float32 if spec["f32"] else np.float64
            kw = {"perfect": spec["perfect"], "lazy": spec["lazy"]}
            self.rows = [np.array([Fraction(w, sum(r)) for w in r], dtype=np.float64).astype(dt) for r in spec["params"]]
            self.fam = M.Categorical(**kw)
            self.concrete = [M.Categorical(r, **kw) for r in self.rows]
            self.lo = [0] * self.k
            self.hi = [len(r) - 1 for r in spec["params"]]
        elif t == "uni":
            self.fam = M.Uniform()
            self.concrete = [M.Uniform(n) for n in spec["params"]]
            self.lo = [0] * self.k
            self.hi = [n - 1 for n in spec["params"]]
        elif t in ("gauss", "laplace", "cauchy"):
            cls = {"gauss": M.QuantizedGaussian, "laplace": M.QuantizedLaplace, "cauchy": M.QuantizedCauchy}[t]
            lo, hi = spec["lo"], spec["hi"]
            self.fam = cls(lo, hi)
            self.concrete = [cls(lo, hi, a, b) for a, b in spec["params"]]
            self.lo = [lo] * self.k
            self.hi = [hi] * self.k
        elif t == "bern":
            kw = {"perfect": spec["perfect"]}
            self.fam = M.Bernoulli(**kw)
            self.concrete = [M.Bernoulli(p, **kw) for p in spec["params"]]
            self.lo = [0] * self.k
            self.hi = [1] * self.k
        else:
            raise AssertionError(t)
        self.tables = [None] * self.k

    def fam_params(self, js):
        t = self.t
        if t == "cat":
            n = len(self.rows[js[0]])
            return (presented(np.stack([self.rows[j] for j in js]).reshape(len(js), n)),)
        if t == "uni":
            return (i32([self.spec["params"][j] for j in js]),)
        if t == "bern":
            return (presented(np.array([self.spec["params"][j] for j in js], dtype=np.float64)),)
        return (presented(np.array([self.spec["params"][j][0] for j in js], dtype=np.float64)), presented(np.array([self.spec["params"][j][1] for j in js], dtype=np.float64)))

    def fam_compatible(self, js):
        """rows of one family call must have the same shape"""
        if self.t == "cat":
            return len({len(self.rows[j]) for j in js}) == 1
        return True

    def table(self, j):
        """exact left cumulatives c[0..n] (c[n] = 2^24) of concrete model j on its documented support, recovered through
        an empty AnsCoder: state 0 -> state c_k"""
        if self.tables[j] is None:
            c = []
            for s in range(self.lo[j], self.hi[j] + 1):
                a = AnsCoder()
                a.encode_reverse(s, self.concrete[j])
                w = a.get_compressed().tolist()
                if len(w) > 1 or (w and w[0] >= TOTAL):
                    label("table_recovery_failed")
                    raise Discard()
                c.append(w[0] if w else 0)
            c.append(TOTAL)
            if c[0] != 0 or any(c[i] >= c[i + 1] for i in range(len(c) - 1)):
                # an invalid table is C03's / C19's business
                label("table_not_a_valid_leaky_table")
                raise Discard()
            self.tables[j] = c
        return self.tables[j]

    def cp(self, j, sym):
        c = self.table(j)
        i = sym - self.lo[j]
        return c[i], c[i + 1] - c[i]

    def lookup(self, j, q):
        c = self.table(j)
        lo, hi = 0, len(c) - 1
        while hi - lo > 1:
            mid = (lo + hi) // 2
            if c[mid] <= q:
                lo = mid
            else:
                hi = mid
        return self.lo[j] + lo

    def sym(self, j, si):
        n = self.hi[j] - self.lo[j] + 1
        return self.lo[j] + si * n // 256 if si < 256 else self.hi[j]


def build_groups(case):
    try:
        return [Group(s) for s in case["groups"]]
    except Discard:
        raise
    except Exception:  # a valid model that the constructor refuses: spurious rejection, not judged here
        label("valid_model_rejected")
        raise Discard()


# ---- reference coders (plain Python integers) --------------------------------------------------
class RefAns:
    def __init__(self, words=()):
        self.out = list(words)
        self.x = 0
        # import: the last two non-zero... (state = up to two trailing words, most significant last)
        if self.out:
            self.x = self.out.pop()
            if self.out:
                self.x = (self.x << WB) | self.out.pop()

    def push(self, c, p):
        if (self.x >> (SB - PREC)) >= p:
            self.out.append(self.x & WMASK)
            self.x >>= WB
        self.x = ((self.x // p) << PREC) | (self.x % p + c)

    def quantile(self):
        return self.x & (TOTAL - 1)

    def pop(self, c, p):
        q = self.x & (TOTAL - 1)
        self.x = (self.x >> PREC) * p + (q - c)
        if self.x < (1 << (SB - WB)) and self.out:
            self.x = (self.x << WB) | self.out.pop()

    def export(self):
        v = list(self.out)
        x = self.x
        while x:
            v.append(x & WMASK)
            x >>= WB
        return v


class CarryOut(Exception):
    pass


class RefRange:
    def __init__(self):
        self.low, self.range, self.out, self.any = 0, SMASK, [], False

    def _carry(self, out):
        i = len(out)
        while True:
            if i == 0:
                raise CarryOut()
            i -= 1
            if out[i] == WMASK:
                out[i] = 0
            else:
                out[i] += 1
                return

    def push(self, c, p):
        self.any = True
        scale = self.range >> PREC
        v = self.low + scale * c
        self.low = v & SMASK
        self.range = scale * p
        if v >> SB:
            self._carry(self.out)
        while self.range < (1 << (SB - WB)):
            self.out.append(self.low >> (SB - WB))
            self.low = (self.low << WB) & SMASK
            self.range <<= WB

    def sealed(self):
        out = list(self.out)
        if not self.any:
            return out
        v = self.low + (1 << (SB - WB)) - 1
        if v >> SB:
            self._carry(out)
        pw = (v & SMASK) >> (SB - WB)
        out.append(pw)
        upper_word = ((self.low + self.range) & SMASK) >> (SB - WB)
        if upper_word == pw:
            out.append(0)
        return out


class RefRangeDecoder:
    def __init__(self, words):
        self.words = list(words)
        self.low, self.range, self.point, self.pos = 0, SMASK, 0, 0
        for _ in range(SB // WB):
            self.point = ((self.point << WB) & SMASK) | self._next()

    def _next(self):
        v = self.words[self.pos] if self.pos < len(self.words) else 0
        self.pos += 1
        return v

    def quantile(self):
        scale = self.range >> PREC
        q = ((self.point - self.low) & SMASK) // scale
        return None if q >> PREC else q

    def consume(self, c, p):
        scale = self.range >> PREC
        self.low = (self.low + scale * c) & SMASK
        self.range = scale * p
        if self.range < (1 << (SB - WB)):
            self.low = (self.low << WB) & SMASK
            self.range <<= WB
            self.point = ((self.point << WB) & SMASK) | self._next()


def hexw(ws):
    return "[" + " ".join("%08x" % w for w in ws) + "]"


def is_panic(e):
    """pyo3 turns a Rust panic into `pyo3_runtime.PanicException`, which derives from BaseException, not Exception"""
    return type(e).__name__ == "PanicException"


def must_work(prop, sig, what, fn):
    """a call that the documentation promises to succeed: an exception is a violation of `prop`, not a harness error"""
    try:
        return fn()
    except (KeyboardInterrupt, SystemExit, MemoryError, Violation, Discard):
        raise
    except BaseException as e:  # noqa: BLE001
        check(prop, False, sig, "%s raised %s: %s" % (what, type(e).__name__, str(e)[:160]))
        raise Discard()


def expect_error(fn):
    """fn must raise an ordinary Python exception (any kind).  Returns True if it did."""
    try:
        fn()
    except (KeyboardInterrupt, SystemExit, MemoryError, Violation, Discard):
        raise
    except BaseException:  # noqa: BLE001  pyo3's PanicException derives from BaseException
        return True
    return False


# ---- AnsCoder histories -----------------------------------------------------------------------
def run_ans(case):
    groups = build_groups(case)
    init = case.get("init")
    bitsback = bool(init and init.get("seal"))
    if init:
        words = init["words"]
        if bitsback:
            coder = AnsCoder(u32(words), seal=True)
            ref = RefAns(list(words) + [1])
        else:
            if not words or words[-1] == 0:
                ok = expect_error(lambda: AnsCoder(u32(words))) if words else True
                label("init_refused" if words else "init_empty_array")
                if not words:
                    coder, ref = AnsCoder(u32(words)), RefAns()
                else:
                    check("C19", ok, "ans/zero_terminated_data_accepted", "AnsCoder(%s) accepted" % hexw(words))
                    return
            else:
                coder = AnsCoder(u32(words))
                ref = RefAns(words)
    else:
        coder, ref = AnsCoder(), RefAns()
    base_export = ref.export()
    pend = []      # pushes not yet popped: (g, j, sym, export_before)
    popped = []    # for bits-back: everything decoded so far, in order: (g, j, sym)
    snaps = []     # (pos tuple, ref.x, ref.out copy)
    n_pop_after_reload = 0
    reloaded = False
    last_op = None

    def cmp_export(prop, sig, what):
        got = coder.get_compressed().tolist()
        want = ref.export()
        check(prop, got == want, sig, lambda: "%s: get_compressed() = %s, reference rANS = %s" % (what, hexw(got), hexw(want)), observation=True)
        return got

    def do_push(g, j, s):
        c, p = groups[g].cp(j, s)
        pend.append((g, j, s, ref.export()))
        ref.push(c, p)

    def do_pop(g, j, got, form):
        nonlocal n_pop_after_reload
        G = groups[g]
        q = ref.quantile()
        want = G.lookup(j, q)
        if pend:
            pg, pj, ps, before = pend[-1]
            if (pg, pj) == (g, j):
                check("C01", got == ps, "ans/pop_returns_other_symbol_than_pushed", lambda: "%s returned %d, the pending push was %d" % (form, got, ps))
                pend.pop()
                c, p = G.cp(j, ps)
                ref.pop(c, p)
                now = ref.export()
                # the reference itself must agree with the recorded export (sanity of the oracle)
                if now != before:
                    raise AssertionError("reference rANS is not a stack")
                if reloaded:
                    n_pop_after_reload += 1
                return
            pend.clear()   # decoding with another model than the one pushed with: free decode from here on
        check("C10", G.lo[j] <= got <= G.hi[j], "ans/decoded_symbol_outside_support", lambda: "%s returned %d, support %d..%d" % (form, got, G.lo[j], G.hi[j]))
        check("C04" if bitsback else "C10", got == want, "ans/decoded_symbol_is_not_the_models_symbol_for_the_quantile",
              lambda: "%s returned %d; quantile %d belongs to %d" % (form, got, q, want))
        c, p = G.cp(j, want)
        ref.pop(c, p)
        popped.append((g, j, want))

    for op in case["ops"]:
        k = op[0]
        last_op = k
        if k == "e1":
            _, g, j, si = op
            s = groups[g].sym(j, si)
            do_push(g, j, s)
            coder.encode_reverse(s, groups[g].concrete[j])
            cmp_export("C06", "ans/stream_differs_from_reference", "after encode_reverse(%d, model)" % s)
        elif k == "ei":
            _, g, j, sis = op
            syms = [groups[g].sym(j, si) for si in sis]
            for s in reversed(syms):
                do_push(g, j, s)
            coder.encode_reverse(i32(syms), groups[g].concrete[j])
            label("ans:iid_batch")
            cmp_export("C01", "ans/iid_batch_differs_from_loop", "after encode_reverse(%r, model)" % syms)
        elif k == "ef":
            _, g, pairs = op
            js = [j % groups[g].k for j, _ in pairs]
            if not js or not groups[g].fam_compatible(js):
                continue
            syms = [groups[g].sym(j, si) for j, (_, si) in zip(js, pairs)]
            for j, s in reversed(list(zip(js, syms))):
                do_push(g, j, s)
            coder.encode_reverse(i32(syms), groups[g].fam, *groups[g].fam_params(js))
            label("ans:family_batch")
            cmp_export("C01", "ans/family_batch_differs_from_loop", "after encode_reverse(%r, family, params of %r)" % (syms, js))
        elif k == "d1":
            _, g, j = op
            got = must_work("C01" if pend else "C10", "ans/decode_raised", "decode(model) with %d pushes pending" % len(pend), lambda: coder.decode(groups[g].concrete[j]))
            do_pop(g, j, int(got), "decode(model)")
            cmp_export("C06", "ans/stream_differs_from_reference", "after decode(model)")
        elif k == "di":
            _, g, j, amt = op
            got = must_work("C01" if len(pend) >= amt > 0 else "C10", "ans/decode_raised", "decode(model, %d) with %d pushes pending" % (amt, len(pend)), lambda: coder.decode(groups[g].concrete[j], amt))
            check("C01", len(got) == amt, "ans/decode_amt_wrong_length", "decode(model, %d) returned %d symbols" % (amt, len(got)))
            for x in got.tolist():
                do_pop(g, j, x, "decode(model, %d)" % amt)
            cmp_export("C01", "ans/iid_decode_differs_from_loop", "after decode(model, %d)" % amt)
        elif k == "df":
            _, g, js = op
            js = [j % groups[g].k for j in js]
            if not js or not groups[g].fam_compatible(js):
                continue
            got = must_work("C01" if len(pend) >= len(js) else "C10", "ans/decode_raised", "decode(family, %d rows) with %d pushes pending" % (len(js), len(pend)), lambda: coder.decode(groups[g].fam, *groups[g].fam_params(js)))
            check("C01", len(got) == len(js), "ans/family_decode_wrong_length", "decode(family, %d rows) returned %d symbols" % (len(js), len(got)))
            for j, x in zip(js, got.tolist()):
                do_pop(g, j, x, "decode(family, params)")
            cmp_export("C01", "ans/family_decode_differs_from_loop", "after decode(family, params of %r)" % js)
        elif k == "reload":
            w = coder.get_compressed()
            if len(w) == 0:
                coder = AnsCoder()
            else:
                coder = AnsCoder(w)
            reloaded = True
            label("ans:reload")
            cmp_export("C01", "ans/reload_changed_export", "after AnsCoder(get_compressed())")
        elif k == "clone":
            coder = coder.clone()
            cmp_export("C08", "ans/clone_differs", "after clone()")
        elif k == "insp":
            want = ref.export()
            nw, nb, nv, em = coder.num_words(), coder.num_bits(), coder.num_valid_bits(), coder.is_empty()
            check("C18", nw == len(want), "ans/num_words", lambda: "num_words() = %d, export has %d words" % (nw, len(want)), observation=True)
            check("C18", nb == 32 * len(want), "ans/num_bits", lambda: "num_bits() = %d, export has %d words" % (nb, len(want)), observation=True)
            valid = 0 if not want else 32 * (len(want) - 1) + want[-1].bit_length() - 1
            check("C18", nv == valid, "ans/num_valid_bits", lambda: "num_valid_bits() = %d, export %s has %d" % (nv, hexw(want), valid), observation=True)
            check("C18", em == (len(want) == 0), "ans/is_empty", lambda: "is_empty() = %r, export %s" % (em, hexw(want)), observation=True)
            coder.get_compressed()
            coder.pos()
            # the raw-binary view: shown if the coder happens to be in a sealed state, refused otherwise; the coder stays as it is
            try:
                raw = coder.get_compressed(unseal=True).tolist()
                check("C08", raw + [1] == want, "ans/raw_binary_view", lambda: "get_compressed(unseal=True) = %s, export %s" % (hexw(raw), hexw(want)), observation=True)
                label("ans:raw_binary_view_shown")
            except (KeyboardInterrupt, SystemExit, MemoryError, Violation, Discard):
                raise
            except BaseException:  # noqa: BLE001
                label("ans:raw_binary_view_refused")
            cmp_export("C08", "ans/inspection_changed_coder", "after num_words / num_bits / num_valid_bits / is_empty / get_compressed / get_compressed(unseal=True) / pos")
        elif k == "snap":
            pos = coder.pos()
            check("C07", pos[0] == len(ref.out) and pos[1] == ref.x, "ans/pos_disagrees_with_reference",
                  lambda: "pos() = %r, reference has %d bulk words and state %d" % (pos, len(ref.out), ref.x))
            snaps.append((pos, ref.x, list(ref.out), list(pend)))
        elif k == "seek":
            if not snaps:
                continue
            pos, x, out, npend = snaps[op[1] % len(snaps)]
            if ref.out[:len(out)] != out:
                # the words below the recorded position have changed since: seeking there is not meaningful
                label("ans:seek_skipped_prefix_changed")
                continue
            must_work("C07", "ans/seek_refused", "seek(%d, %d) to a recorded snapshot" % pos, lambda: coder.seek(pos[0], pos[1]))
            ref.out, ref.x = list(out), x
            # bulk prefix and state are exactly those of the snapshot, hence so are the pending pushes
            pend[:] = npend
            label("ans:seek")
            cmp_export("C07", "ans/export_after_seek", "after seek(%d, %d)" % pos)
        elif k == "badseek":
            n = len(ref.out)
            before = ref.export()
            ok = expect_error(lambda: coder.seek(n + 1 + op[1], max(1, ref.x)))
            check("C07", ok, "ans/seek_beyond_data_accepted", "seek(%d, ..) accepted with %d bulk words" % (n + 1 + op[1], n))
            got = coder.get_compressed().tolist()
            check("C07", got == before, "ans/refused_seek_changed_coder", lambda: "export %s -> %s" % (hexw(before), hexw(got)))
        elif k == "mis":
            _, g, j, delta = op
            G = groups[g]
            rows = [j] * 3
            syms = [G.sym(j, 40 * i) for i in range(3 + delta)]
            before = ref.export()
            ok = expect_error(lambda: coder.encode_reverse(i32(syms), G.fam, *G.fam_params(rows)))
            label("ans:mismatched_lengths")
            check("C01", ok, "ans/mismatched_lengths_accepted", lambda: "encode_reverse(%d symbols, family, %d parameter rows) returned normally" % (len(syms), len(rows)))
            got = coder.get_compressed().tolist()
            check("C09", got == before, "ans/refused_call_changed_coder", lambda: "refused encode_reverse with mismatched lengths: %s -> %s" % (hexw(before), hexw(got)))
        elif k == "bad":
            _, g, j, which, form = op
            G = groups[g]
            s = [G.hi[j] + 1, G.lo[j] - 1, G.hi[j] + 1 + 2 ** 24, G.lo[j] - 2 ** 16, 2 ** 31 - 1, -(2 ** 31)][which % 6]
            if G.lo[j] <= s <= G.hi[j] or not (-(2 ** 31) <= s < 2 ** 31):
                continue
            before = ref.export()
            if form == 0:
                ok = expect_error(lambda: coder.encode_reverse(s, G.concrete[j]))
                what = "encode_reverse(%d, model)" % s
            elif form == 1:
                # i.i.d. batch whose FIRST encoded symbol (the last of the array) is impossible: nothing may be encoded
                good = G.sym(j, 7)
                ok = expect_error(lambda: coder.encode_reverse(i32([good, s]), G.concrete[j]))
                what = "encode_reverse([%d, %d], model)" % (good, s)
            elif form == 3:
                # a 64-bit array whose second value is an in-support symbol plus 2^32: refused (today: wrong dtype), never narrowed
                good = G.sym(j, 7)
                wrapped = G.sym(j, 200) + 2 ** 32
                ok = expect_error(lambda: coder.encode_reverse(np.array([good, wrapped], dtype=np.int64), G.concrete[j]))
                what = "encode_reverse(int64 array [%d, %d], model)" % (good, wrapped)
                s = wrapped
            else:
                good = G.sym(j, 99)
                ok = expect_error(lambda: coder.encode_reverse(i32([good, s]), G.fam, *G.fam_params([j, j])))
                what = "encode_reverse([%d, %d], family, params)" % (good, s)
            label("ans:bad_symbol")
            check("C09", ok, "ans/impossible_symbol_not_rejected", lambda: "%s on support %d..%d did not raise" % (what, G.lo[j], G.hi[j]))
            got = coder.get_compressed().tolist()
            check("C09", got == before, "ans/failed_encode_changed_coder", lambda: "%s: export %s -> %s" % (what, hexw(before), hexw(got)))
        else:
            raise AssertionError(k)

    # ---- end of history ------------------------------------------------------------------
    if case.get("finish") == "pop_all" and pend:
        while pend:
            g, j, s, before = pend[-1]
            got = int(must_work("C01", "ans/decode_raised", "decode(model) with %d pushes pending" % len(pend), lambda: coder.decode(groups[g].concrete[j])))
            do_pop(g, j, got, "decode(model)")
            exp = coder.get_compressed().tolist()
            check("C01", exp == before, "ans/export_not_restored_after_pop", lambda: "after popping %d: %s, before the push: %s" % (s, hexw(exp), hexw(before)))
        label("ans:popped_all")
    if bitsback and case.get("finish") == "reencode" and not pend:
        # everything decoded from the sealed data is encoded back in reverse; the data must be restored word for word
        form = case.get("reform", 0)
        i = len(popped)
        while i > 0:
            g, j, s = popped[i - 1]
            if form == 0:
                coder.encode_reverse(s, groups[g].concrete[j])
                i -= 1
            else:
                # maximal run with the same group
                a = i - 1
                while a > 0 and popped[a - 1][0] == g and (form == 2 or popped[a - 1][1] == j) and (form == 1 or groups[g].fam_compatible([popped[a - 1][1], j])):
                    a -= 1
                run = popped[a:i]
                syms = i32([r[2] for r in run])
                if form == 1:
                    coder.encode_reverse(syms, groups[g].concrete[j])
                else:
                    coder.encode_reverse(syms, groups[g].fam, *groups[g].fam_params([r[1] for r in run]))
                i = a
        got = coder.get_compressed(unseal=True).tolist()
        label("ans:bitsback_roundtrip")
        check("C04", got == init["words"], "ans/bitsback_data_not_restored", lambda: "decoded %d symbols from %s and encoded them back: get_compressed(unseal=True) = %s" % (len(popped), hexw(init["words"]), hexw(got)))
        if len(popped) >= 2:
            return True
    return n_pop_after_reload >= 1 or (last_op is not None and len(case["ops"]) >= 4)


# ---- range coder histories ----------------------------------------------------------------------
def run_range(case):
    groups = build_groups(case)
    enc, ref = RangeEncoder(), RefRange()
    msg = []       # (g, j, sym)
    snaps = []     # (index into msg, pos)
    inverted_seen = False

    def cmp_sealed(prop, sig, what, coder=None):
        try:
            want = ref.sealed()
        except CarryOut:
            raise AssertionError("reference range coder: carry out of the first word")
        got = (coder or enc).get_compressed().tolist()
        check(prop, got == want, sig, lambda: "%s: get_compressed() = %s, reference range coder = %s" % (what, hexw(got), hexw(want)), observation=True)
        return got

    def push(g, j, s):
        c, p = groups[g].cp(j, s)
        ref.push(c, p)
        msg.append((g, j, s))

    for op in case["ops"]:
        k = op[0]
        if k == "e1":
            _, g, j, si = op
            s = groups[g].sym(j, si)
            push(g, j, s)
            enc.encode(s, groups[g].concrete[j])
        elif k == "ei":
            _, g, j, sis = op
            syms = [groups[g].sym(j, si) for si in sis]
            for s in syms:
                push(g, j, s)
            enc.encode(i32(syms), groups[g].concrete[j])
            label("range:iid_batch")
        elif k == "ef":
            _, g, pairs = op
            js = [j % groups[g].k for j, _ in pairs]
            if not js or not groups[g].fam_compatible(js):
                continue
            syms = [groups[g].sym(j, si) for j, (_, si) in zip(js, pairs)]
            for j, s in zip(js, syms):
                push(g, j, s)
            enc.encode(i32(syms), groups[g].fam, *groups[g].fam_params(js))
            label("range:family_batch")
        elif k == "insp":
            want = cmp_sealed("C06", "range/stream_differs_from_reference", "at a prefix of %d symbols" % len(msg))
            nw, nb, em = enc.num_words(), enc.num_bits(), enc.is_empty()
            check("C18", nw == len(want), "range/num_words", lambda: "num_words() = %d, sealed stream has %d words" % (nw, len(want)), observation=True)
            check("C18", nb == 32 * len(want), "range/num_bits", lambda: "num_bits() = %d, sealed stream has %d words" % (nb, len(want)), observation=True)
            check("C18", em == (len(msg) == 0), "range/is_empty", lambda: "is_empty() = %r after %d symbols" % (em, len(msg)), observation=True)
            d = enc.get_decoder()
            enc.pos()
            if op[1] % 2:
                enc = enc.clone()
            cmp_sealed("C08", "range/inspection_changed_encoder", "after get_compressed / num_words / get_decoder / pos / clone")
        elif k == "snap":
            pos = enc.pos()
            snaps.append((len(msg), pos))
        elif k == "clear":
            enc.clear()
            ref = RefRange()
            msg.clear()
            snaps.clear()
            label("range:clear")
        elif k == "mis":
            # the family form with more or fewer symbols than parameter rows: refused, nothing encoded
            _, g, j, delta = op
            G = groups[g]
            rows = [j] * 3
            syms = [G.sym(j, 40 * i) for i in range(3 + delta)]
            before = enc.get_compressed().tolist()
            ok = expect_error(lambda: enc.encode(i32(syms), G.fam, *G.fam_params(rows)))
            label("range:mismatched_lengths")
            check("C02", ok, "range/mismatched_lengths_accepted", lambda: "encode(%d symbols, family, %d parameter rows) returned normally" % (len(syms), len(rows)))
            after = enc.get_compressed().tolist()
            check("C09", before == after, "range/refused_call_changed_encoder", lambda: "refused encode with mismatched lengths: %s -> %s" % (hexw(before), hexw(after)))
        elif k == "bad":
            _, g, j, which, form = op
            G = groups[g]
            s = [G.hi[j] + 1, G.lo[j] - 1, G.hi[j] + 1 + 2 ** 24, G.lo[j] - 2 ** 16, 2 ** 31 - 1, -(2 ** 31)][which % 6]
            if G.lo[j] <= s <= G.hi[j]:
                continue
            if form == 0:
                ok = expect_error(lambda: enc.encode(s, G.concrete[j]))
                what = "encode(%d, model)" % s
            elif form == 1:
                ok = expect_error(lambda: enc.encode(i32([s, G.sym(j, 7)]), G.concrete[j]))
                what = "encode([%d, ..], model)" % s
            elif form == 3:
                wrapped = G.sym(j, 200) + 2 ** 32
                ok = expect_error(lambda: enc.encode(np.array([wrapped, G.sym(j, 7)], dtype=np.int64), G.concrete[j]))
                what = "encode(int64 array [%d, ..], model)" % wrapped
            else:
                ok = expect_error(lambda: enc.encode(i32([s, G.sym(j, 7)]), G.fam, *G.fam_params([j, j])))
                what = "encode([%d, ..], family, params)" % s
            label("range:bad_symbol")
            check("C09", ok, "range/impossible_symbol_not_rejected", lambda: "%s on support %d..%d did not raise" % (what, G.lo[j], G.hi[j]))
            got9, want9 = enc.get_compressed().tolist(), ref.sealed()
            check("C09", got9 == want9, "range/failed_encode_changed_encoder", lambda: "after the refused %s: get_compressed() = %s, before it was %s" % (what, hexw(got9), hexw(want9)))
        else:
            raise AssertionError(k)

    want = cmp_sealed("C06", "range/stream_differs_from_reference", "at the end (%d symbols)" % len(msg))
    if not msg:
        check("C02", want == [], "range/empty_message_has_words", "no symbols but %d words" % len(want))
    # ---- decode ---------------------------------------------------------------------------
    how = case.get("dec", 0)
    tail = case.get("tail", [])
    data = list(want)
    if how % 3 == 0:
        dec = RangeDecoder(u32(data))
    elif how % 3 == 1:
        dec = enc.get_decoder()
    else:
        data = data + tail   # whatever follows a sealed message must not matter (C11); judged as C02 only for an empty tail
        dec = RangeDecoder(u32(data))
    tailed = how % 3 == 2 and len(tail) > 0

    def decode_from(dec, start):
        """decode msg[start:] in generated call forms"""
        i = start
        forms = case.get("dforms", [0])
        fi = 0
        while i < len(msg):
            g, j, s = msg[i]
            form = forms[fi % len(forms)]
            fi += 1
            if form == 0:
                got = [int(dec.decode(groups[g].concrete[j]))]
                n = 1
            elif form == 1:
                n = 1
                while i + n < len(msg) and msg[i + n][:2] == (g, j):
                    n += 1
                got = dec.decode(groups[g].concrete[j], n).tolist()
            else:
                n = 1
                while i + n < len(msg) and msg[i + n][0] == g and groups[g].fam_compatible([j, msg[i + n][1]]):
                    n += 1
                got = dec.decode(groups[g].fam, *groups[g].fam_params([m[1] for m in msg[i:i + n]])).tolist()
            wantsyms = [m[2] for m in msg[i:i + n]]
            check("C11" if tailed else "C02", got == wantsyms, "range/decode_mismatch",
                  lambda: "symbols %d..%d: decoded %r, encoded %r (call form %d)" % (i, i + n, got, wantsyms, form))
            i += n

    decode_from(dec, 0)
    if not tailed:
        me = dec.maybe_exhausted()
        check("C02", me, "range/not_maybe_exhausted_at_end", "maybe_exhausted() is False after decoding the whole message")
    # ---- seek -----------------------------------------------------------------------------
    for sk in case.get("seeks", []):
        if not snaps:
            break
        idx, pos = snaps[sk % len(snaps)]
        must_work("C07", "range/seek_refused", "seek to the snapshot taken before symbol %d" % idx, lambda: dec.seek(pos[0], pos[1]))
        label("range:seek")
        i = idx
        while i < len(msg):
            g, j, s = msg[i]
            got = int(dec.decode(groups[g].concrete[j]))
            check("C07", got == s, "range/wrong_symbol_after_seek", lambda: "seek to the snapshot before symbol %d, then symbol %d decoded as %d instead of %d" % (idx, i, got, s))
            i += 1
    if case.get("badseek") is not None and msg:
        n = len(data)
        ok = expect_error(lambda: dec.seek(n + 1 + case["badseek"], (0, SMASK)))
        check("C07", ok, "range/seek_beyond_data_accepted", "seek(%d, ..) accepted on %d words" % (n + 1 + case["badseek"], n))
    return len(msg) >= 3


def run_range_arbitrary(case):
    """C10: RangeDecoder over arbitrary words"""
    groups = build_groups(case)
    words = case["words"]
    dec = RangeDecoder(u32(words))
    ref = RefRangeDecoder(words)
    n = 0
    forms = case.get("forms") or [0]

    def dec_one(G, j, i):
        form = forms[i % len(forms)]
        if form == 1:
            return int(dec.decode(G.concrete[j], 1)[0])
        if form == 2:
            return int(dec.decode(G.fam, *G.fam_params([j]))[0])
        return int(dec.decode(G.concrete[j]))

    for i, (g, j) in enumerate(case["decodes"]):
        G = groups[g]
        j %= G.k
        q = ref.quantile()
        if q is None:
            # invalid data: the decoder must say so (an exception), or - being lenient - return a support symbol
            try:
                got = dec_one(G, j, i)
            except (KeyboardInterrupt, SystemExit, MemoryError):
                raise
            except BaseException as e:  # noqa: BLE001
                label("range:invalid_data_reported")
                check("C10", not is_panic(e), "range/decode_panicked", lambda: "decoding invalid data raised a Rust panic instead of the documented error: %s" % str(e)[:200])
                return n >= 2
            check("C10", G.lo[j] <= got <= G.hi[j], "range/decoded_symbol_outside_support", "decode returned %d, support %d..%d" % (got, G.lo[j], G.hi[j]))
            return n >= 2
        got = dec_one(G, j, i)
        want = G.lookup(j, q)
        check("C10", G.lo[j] <= got <= G.hi[j], "range/decoded_symbol_outside_support", lambda: "decode returned %d, support %d..%d" % (got, G.lo[j], G.hi[j]))
        check("C10", got == want, "range/decoded_symbol_is_not_the_models_symbol_for_the_quantile", lambda: "decode returned %d; quantile %d belongs to %d" % (got, q, want))
        c, p = G.cp(j, want)
        ref.consume(c, p)
        n += 1
    return n >= 2


# ---- chain coder ----------------------------------------------------------------------------------
def run_chain(case):
    groups = build_groups(case)
    data = case["words"]
    seal = case["seal"]
    try:
        coder = ChainCoder(u32(data), False, seal)
    except (KeyboardInterrupt, SystemExit, MemoryError):
        raise
    except BaseException:  # noqa: BLE001
        label("chain:construction_refused")
        return False
    steps = []
    for op in case["ops"]:
        k = op[0]
        try:
            if k == "d1":
                _, g, j = op
                got = [int(coder.decode(groups[g].concrete[j]))]
                js = [j]
            elif k == "di":
                _, g, j, amt = op
                got = coder.decode(groups[g].concrete[j], amt).tolist()
                js = [j] * amt
                check("C13", len(got) == amt, "chain/decode_amt_wrong_length", "decode(model, %d) returned %d symbols" % (amt, len(got)))
            elif k == "df":
                _, g, js = op
                js = [j % groups[g].k for j in js]
                if not js or not groups[g].fam_compatible(js):
                    continue
                got = coder.decode(groups[g].fam, *groups[g].fam_params(js)).tolist()
                check("C13", len(got) == len(js), "chain/family_decode_wrong_length", "decode(family, %d rows) returned %d symbols" % (len(js), len(got)))
            elif k == "bad":
                _, g, j, which = op
                G = groups[g]
                s = [G.hi[j] + 1, G.lo[j] - 1, G.hi[j] + 1 + 2 ** 24, 2 ** 31 - 1][which % 4]
                if G.lo[j] <= s <= G.hi[j]:
                    continue
                r0 = [x.tolist() for x in coder.get_remainders()]
                ok = expect_error(lambda: coder.encode_reverse(s, G.concrete[j]))
                check("C09", ok, "chain/impossible_symbol_not_rejected", lambda: "encode_reverse(%d, model) on support %d..%d did not raise" % (s, G.lo[j], G.hi[j]))
                r1 = [x.tolist() for x in coder.get_remainders()]
                check("C09", r0 == r1, "chain/failed_encode_changed_coder", lambda: "get_remainders() %r -> %r" % (r0, r1))
                label("chain:bad_symbol")
                continue
            else:
                raise AssertionError(k)
        except (KeyboardInterrupt, SystemExit, MemoryError, Violation, Discard):
            raise
        except BaseException as e:  # noqa: BLE001  running out of data is reported as an error; a batch call may have consumed part of the data
            label("chain:decode_error(out_of_data)")
            check("C10", not is_panic(e), "chain/decode_panicked", lambda: "%s on %d words raised a Rust panic instead of the documented out-of-data error: %s" % (op, len(data), str(e)[:200]), observation=True)
            return False
        for j, s in zip(js, got):
            G = groups[g]
            check("C10", G.lo[j] <= s <= G.hi[j], "chain/decoded_symbol_outside_support", lambda: "decoded %d, support %d..%d" % (s, G.lo[j], G.hi[j]))
            steps.append((g, j, s))
    if STATE["prop"] == "C10":
        return len(steps) >= 2
    # ---- export / re-import in one of the three documented ways ------------------------------
    way = case.get("way", 0)
    kept = []
    if way == 1:
        a, b = coder.get_remainders()
        cat = a.tolist() + b.tolist()
        try:
            coder = ChainCoder(u32(cat), True, False)
        except (KeyboardInterrupt, SystemExit, MemoryError):
            raise
        except BaseException as e:  # noqa: BLE001
            check("C13", False, "chain/from_remainders_rejected", "ChainCoder(prefix ++ suffix = %s, is_remainders=True) -> %s" % (hexw(cat), e))
        label("chain:way_concatenated_remainders")
    elif way == 2:
        a, b = coder.get_remainders()
        kept = a.tolist()
        try:
            coder = ChainCoder(b, True, False)
        except (KeyboardInterrupt, SystemExit, MemoryError):
            raise
        except BaseException as e:  # noqa: BLE001
            check("C13", False, "chain/from_remainders_rejected", "ChainCoder(suffix = %s, is_remainders=True) -> %s" % (hexw(b.tolist()), e))
        label("chain:way_suffix_only")
    else:
        label("chain:way_same_coder")
    form = case.get("reform", 0)
    i = len(steps)
    try:
        while i > 0:
            g, j, s = steps[i - 1]
            if form == 0:
                coder.encode_reverse(s, groups[g].concrete[j])
                i -= 1
            else:
                a = i - 1
                while a > 0 and steps[a - 1][0] == g and (form == 2 or steps[a - 1][1] == j) and (form == 1 or groups[g].fam_compatible([steps[a - 1][1], j])):
                    a -= 1
                run = steps[a:i]
                syms = i32([r[2] for r in run])
                if form == 1:
                    coder.encode_reverse(syms, groups[g].concrete[j])
                else:
                    coder.encode_reverse(syms, groups[g].fam, *groups[g].fam_params([r[1] for r in run]))
                i = a
    except (KeyboardInterrupt, SystemExit, MemoryError, Violation, Discard):
        raise
    except BaseException as e:  # noqa: BLE001
        check("C13", False, "chain/reencode_failed", "re-encoding the decoded symbols (form %d, way %d) raised %s: %s" % (form, way, type(e).__name__, e))
    try:
        r, c = coder.get_data(unseal=seal)
    except (KeyboardInterrupt, SystemExit, MemoryError):
        raise
    except BaseException as e:  # noqa: BLE001
        check("C13", False, "chain/final_export_failed", "get_data(unseal=%r) after re-encoding raised %s: %s" % (seal, type(e).__name__, e))
    rec = kept + r.tolist() + c.tolist()
    check("C13", rec == data, "chain/data_not_restored", lambda: "way %d, form %d, %d symbols: reconstructed %s original %s" % (way, form, len(steps), hexw(rec), hexw(data)))
    return len(steps) >= 2


# ---- symbol codes ---------------------------------------------------------------------------------
def huffman_cost(weights):
    h = [(w, i) for i, w in enumerate(weights)]
    heapq.heapify(h)
    cost = 0
    nxt = len(weights)
    while len(h) > 1:
        a = heapq.heappop(h)
        b = heapq.heappop(h)
        cost += a[0] + b[0]
        heapq.heappush(h, (a[0] + b[0], nxt))
        nxt += 1
    return cost


def bits_of(words, nbits):
    return [(words[i // 32] >> (i % 32)) & 1 for i in range(nbits)]


def decode_n(coder, tree, n, what):
    """n symbols from a bit-level coder; a decoding error on bits that the encoder wrote itself is a C16 matter"""
    out = []
    for _ in range(n):
        try:
            out.append(coder.decode_symbol(tree))
        except (KeyboardInterrupt, SystemExit, MemoryError, Violation, Discard):
            raise
        except BaseException as e:  # noqa: BLE001
            check("C16", False, "symbol/decode_failed", "%s: symbol %d of %d could not be decoded: %s %s" % (what, len(out), n, type(e).__name__, str(e)[:120]))
    return out


def run_symbol(case):
    weights = case["weights"]
    n = len(weights)
    arr = presented(np.array(weights, dtype=np.float32 if case["f32"] else np.float64))
    try:
        et = HUF.EncoderHuffmanTree(arr)
        dt = HUF.DecoderHuffmanTree(arr)
    except (KeyboardInterrupt, SystemExit, MemoryError):
        raise
    except BaseException:  # noqa: BLE001
        label("symbol:tree_refused")
        return False
    # codewords, observed through a fresh queue encoder (bits are written in code order)
    code = []
    for s in range(n):
        q = SYM.QueueEncoder()
        q.encode_symbol(s, et)
        w, nb = q.get_compressed_and_bitrate()
        code.append(bits_of(w.tolist(), nb))
    if n >= 2:
        for a in range(n):
            for b in range(n):
                if a != b:
                    check("C15", code[a] != code[b][:len(code[a])], "symbol/not_prefix_free", lambda: "codeword of %d %r is a prefix of the codeword of %d %r" % (a, code[a], b, code[b]))
        kraft = sum(Fraction(1, 2 ** len(c)) for c in code)
        check("C15", kraft == 1, "symbol/kraft_sum_not_one", lambda: "Kraft sum %s for lengths %r" % (kraft, [len(c) for c in code]))
        cost = sum(w * len(c) for w, c in zip(weights, code))
        best = huffman_cost(weights)
        check("C15", cost == best, "symbol/not_optimal", lambda: "weights %r lengths %r cost %d, optimum %d" % (weights, [len(c) for c in code], cost, best))
    # stack coder writes the same codeword reversed (so that popping yields it in code order)
    msg = [x * n // 256 for x in case["msg"]]
    qe, sc = SYM.QueueEncoder(), SYM.StackCoder()
    total = 0
    for s in msg:
        qe.encode_symbol(s, et)
        sc.encode_symbol(s, et)
        total += len(code[s])
    w, nb = qe.get_compressed_and_bitrate()
    check("C16", nb == total, "symbol/queue_bitrate", lambda: "bitrate %d, sum of codeword lengths %d" % (nb, total))
    want_bits = [b for s in msg for b in code[s]]
    check("C16", bits_of(w.tolist(), nb) == want_bits and len(w) == (nb + 31) // 32, "symbol/queue_bits_differ",
          lambda: "queue holds %r (%d words), codewords in order are %r" % (bits_of(w.tolist(), nb), len(w), want_bits))
    w2, nb2 = sc.get_compressed_and_bitrate()
    check("C16", nb2 == total, "symbol/stack_bitrate", lambda: "bitrate %d, sum of codeword lengths %d" % (nb2, total))
    # inspection must not change the coders (C08): look twice, then go on
    w3, nb3 = sc.get_compressed_and_bitrate()
    check("C08", w3.tolist() == w2.tolist() and nb3 == nb2, "symbol/second_look_differs", "get_compressed_and_bitrate twice")
    if case.get("mid"):
        # a temporary decoder taken in the middle of a message: it decodes what was written so far and the
        # encoder goes on as if nothing had happened (C08)
        dm = qe.get_decoder()
        gotm = decode_n(dm, dt, len(msg), "decoder taken midway")
        check("C16", gotm == msg, "symbol/queue_not_fifo", lambda: "decoder taken midway decoded %r, encoded %r" % (gotm, msg))
        wq, nq = qe.get_compressed_and_bitrate()
        check("C08", nq == total and bits_of(wq.tolist(), nq) == want_bits, "symbol/get_decoder_changed_encoder",
              lambda: "after get_decoder(): bitrate %d (was %d), bits %r" % (nq, total, bits_of(wq.tolist(), nq)))
        label("symbol:decoder_taken_midway")
    extra = [x * n // 256 for x in case.get("extra", [])]
    for s in extra:
        qe.encode_symbol(s, et)
        sc.encode_symbol(s, et)
    allmsg = msg + extra
    if case.get("bad") is not None and n >= 1:
        s = n + case["bad"]
        before = sc.get_compressed_and_bitrate()
        ok = expect_error(lambda: sc.encode_symbol(s, et))
        ok2 = expect_error(lambda: qe.encode_symbol(s, et))
        check("C09", ok and ok2, "symbol/impossible_symbol_not_rejected", "encode_symbol(%d) with an alphabet of %d symbols did not raise" % (s, n))
        after = sc.get_compressed_and_bitrate()
        check("C09", before[0].tolist() == after[0].tolist() and before[1] == after[1], "symbol/failed_encode_changed_coder", "stack coder changed by a refused symbol")
        label("symbol:bad_symbol")
    # FIFO
    how = case.get("dec", 0)
    if how % 2 == 0:
        qd = qe.get_decoder()
    else:
        qd = SYM.QueueDecoder(qe.get_compressed_and_bitrate()[0])
    wf, nf = qe.get_compressed_and_bitrate()
    all_bits = [b for s in allmsg for b in code[s]]
    check("C16", nf == len(all_bits) and bits_of(wf.tolist(), nf) == all_bits, "symbol/queue_bits_differ",
          lambda: "at the end the queue holds %d bits %r, codewords in order are %r" % (nf, bits_of(wf.tolist(), nf), all_bits))
    got = decode_n(qd, dt, len(allmsg), "queue decoder")
    check("C16", got == allmsg, "symbol/queue_not_fifo", lambda: "decoded %r, encoded %r" % (got, allmsg))
    # LIFO, directly or through export / re-import
    if how // 2 % 2 == 1 and allmsg:
        w4, _ = sc.get_compressed_and_bitrate()
        sc = SYM.StackCoder(w4)
        label("symbol:stack_reimport")
    got = decode_n(sc, dt, len(allmsg), "stack coder")
    check("C16", got == allmsg[::-1], "symbol/stack_not_lifo", lambda: "decoded %r, encoded %r" % (got, allmsg))
    wz, nz = sc.get_compressed_and_bitrate()
    check("C16", nz == 0, "symbol/stack_not_empty_after_popping_everything", "bitrate %d after popping everything" % nz)
    return n >= 3 and len(allmsg) >= 3


# ---- dispatcher --------------------------------------------------------------------------------------
def run_case(case):
    STATE["prop"] = case.get("prop") or A.prop
    VIEWS["seq"], VIEWS["at"] = (case.get("views") or [0]), 0
    kind = case["kind"]
    try:
        nontrivial = {"ans": run_ans, "range": run_range, "range_arb": run_range_arbitrary, "chain": run_chain, "symbol": run_symbol}[kind](case)
    except Discard:
        label("discarded")
        return
    label("exercised:" + kind)
    if nontrivial and STATE["counting"]:
        STATE["nontrivial"] += 1
        h = hashlib.sha1(json.dumps(case, sort_keys=True).encode()).hexdigest()[:16]
        if h not in STATE["hashes"]:
            STATE["hashes"].add(h)
            if len(STATE["samples"]) < 3:
                STATE["samples"].append(case)


def guarded(case):
    if A.out:
        with open(A.out + ".current", "w") as f:
            json.dump(case, f)
    signal.alarm(A.case_timeout)
    try:
        if STATE["counting"]:
            STATE["executed"] += 1
        run_case(case)
    except Violation as v:
        STATE["counting"] = False
        STATE["last_failure"] = {"sig": v.sig, "detail": v.detail, "example": case}
        raise
    finally:
        signal.alarm(0)


if A.replay:
    case = json.load(open(A.replay))
    case = case.get("example", case)
    signal.alarm(60)
    try:
        run_case(case)
    except Violation as v:
        print("PY-VIOLATION %s :: %s" % (v.sig, v.detail))
        sys.exit(1)
    print("PY-PASS", json.dumps(LABELS))
    sys.exit(0)

# ---------------------------------------------------------------------------------------------------------
from hypothesis import HealthCheck, Phase, given, seed, settings  # noqa: E402
from hypothesis import strategies as st  # noqa: E402

PROP = A.prop
assert PROP in EXPLORERS, "unknown --prop"
byte = st.integers(0, 255)
views_s = st.one_of(st.just([0]), st.lists(st.integers(0, 2), min_size=1, max_size=5))
small = st.integers(0, 3)
weight = st.one_of(st.integers(1, 20), st.integers(1, 100000), st.sampled_from([1, 2, 4, 1 << 20, 3, 999983]))
word = st.one_of(st.integers(0, WMASK), st.sampled_from([0, 1, WMASK, 1 << 31, (1 << 24) - 1, 1 << 24, 0xffffff00, 0x000000ff]))


@st.composite
def group(draw):
    t = draw(st.sampled_from(["cat", "cat", "cat", "uni", "gauss", "laplace", "cauchy", "bern"]))
    k = draw(st.integers(1, 4))
    if t == "cat":
        n = draw(st.integers(2, 9))
        same = draw(st.booleans())
        rows = [draw(st.lists(weight, min_size=n, max_size=n)) if same else draw(st.lists(weight, min_size=2, max_size=9)) for _ in range(k)]
        lazy = draw(st.booleans())   # (the Python constructor refuses lazy together with perfect)
        return {"t": "cat", "f32": draw(st.booleans()), "perfect": False if lazy else draw(st.booleans()), "lazy": lazy, "params": rows}
    if t == "uni":
        return {"t": "uni", "params": draw(st.lists(st.one_of(st.integers(2, 40), st.sampled_from([2, 3, 255, 256, 257, 4096])), min_size=k, max_size=k))}
    if t == "bern":
        return {"t": "bern", "perfect": draw(st.booleans()), "params": draw(st.lists(st.floats(0.0, 1.0), min_size=k, max_size=k))}
    lo = draw(st.integers(-40, 5))
    hi = lo + draw(st.integers(1, 60))
    ps = [[draw(st.floats(lo - 10.0, hi + 10.0)), draw(st.floats(0.01, 30.0))] for _ in range(k)]
    return {"t": t, "lo": lo, "hi": hi, "params": ps}


@st.composite
def groups_s(draw):
    return draw(st.lists(group(), min_size=1, max_size=3))


def gj(draw, gs):
    g = draw(st.integers(0, len(gs) - 1))
    j = draw(st.integers(0, len(gs[g]["params"]) - 1))
    return g, j


@st.composite
def ans_case(draw):
    gs = draw(groups_s())
    bitsback = PROP == "C04" or (PROP in ("C10", "C18") and draw(st.booleans()))
    init = None
    if bitsback:
        init = {"words": draw(st.lists(word, min_size=0, max_size=12)), "seal": True}
    elif draw(st.integers(0, 2)) == 0:
        ws = draw(st.lists(word, min_size=0, max_size=8))
        if ws and ws[-1] == 0 and draw(st.integers(0, 7)) != 0:
            ws[-1] = 1 + draw(st.integers(0, WMASK - 1))
        init = {"words": ws, "seal": False}
    nops = draw(st.integers(1, 24))
    ops = []
    kinds = ["d1", "d1", "di", "df", "insp"] if bitsback else ["e1", "e1", "ei", "ef", "d1", "d1", "di", "df", "reload", "clone", "insp", "snap", "seek", "badseek", "bad", "mis"]
    for _ in range(nops):
        k = draw(st.sampled_from(kinds))
        g, j = gj(draw, gs)
        if k == "e1":
            ops.append([k, g, j, draw(byte)])
        elif k == "ei":
            ops.append([k, g, j, draw(st.lists(byte, min_size=0, max_size=6))])
        elif k == "ef":
            ops.append([k, g, draw(st.lists(st.tuples(small, byte), min_size=1, max_size=6))])
        elif k == "d1":
            ops.append([k, g, j])
        elif k == "di":
            ops.append([k, g, j, draw(st.integers(0, 6))])
        elif k == "df":
            ops.append([k, g, draw(st.lists(small, min_size=1, max_size=6))])
        elif k in ("seek", "badseek"):
            ops.append([k, draw(small)])
        elif k == "bad":
            ops.append([k, g, j, draw(st.integers(0, 5)), draw(st.integers(0, 3))])
        elif k == "mis":
            ops.append([k, g, j, draw(st.sampled_from([-2, -1, 1, 2]))])
        else:
            ops.append([k])
    return {"prop": PROP, "views": draw(views_s), "kind": "ans", "groups": gs, "init": init, "ops": ops, "finish": "reencode" if bitsback else draw(st.sampled_from(["pop_all", "pop_all", "none"])),
            "reform": draw(st.integers(0, 2))}


@st.composite
def range_case(draw):
    gs = draw(groups_s())
    nops = draw(st.integers(0, 24))
    ops = []
    kinds = ["e1", "e1", "e1", "ei", "ef", "insp", "snap", "snap", "bad", "mis"] + (["clear"] if draw(st.integers(0, 5)) == 0 else [])
    for _ in range(nops):
        k = draw(st.sampled_from(kinds))
        g, j = gj(draw, gs)
        if k == "e1":
            ops.append([k, g, j, draw(byte)])
        elif k == "ei":
            ops.append([k, g, j, draw(st.lists(byte, min_size=0, max_size=6))])
        elif k == "ef":
            ops.append([k, g, draw(st.lists(st.tuples(small, byte), min_size=1, max_size=6))])
        elif k == "insp":
            ops.append([k, draw(small)])
        elif k == "bad":
            ops.append([k, g, j, draw(st.integers(0, 5)), draw(st.integers(0, 3))])
        elif k == "mis":
            ops.append([k, g, j, draw(st.sampled_from([-2, -1, 1, 2]))])
        else:
            ops.append([k])
    return {"prop": PROP, "views": draw(views_s), "kind": "range", "groups": gs, "ops": ops, "dec": draw(st.integers(0, 1)), "tail": [],
            "dforms": draw(st.lists(st.integers(0, 2), min_size=1, max_size=4)), "seeks": draw(st.lists(byte, min_size=0, max_size=4)),
            "badseek": draw(st.one_of(st.none(), small))}


@st.composite
def range_arb_case(draw):
    gs = draw(groups_s())
    decs = []
    for _ in range(draw(st.integers(1, 12))):
        decs.append(list(gj(draw, gs)))
    return {"prop": PROP, "views": draw(views_s), "kind": "range_arb", "groups": gs, "words": draw(st.lists(word, min_size=0, max_size=10)), "decodes": decs,
            "forms": draw(st.lists(st.integers(0, 2), min_size=1, max_size=4))}


@st.composite
def chain_case(draw):
    gs = draw(groups_s())
    ws = draw(st.lists(word, min_size=draw(st.sampled_from([0, 3, 3, 6, 10])), max_size=30))
    seal = draw(st.booleans())
    if not seal and ws and ws[-1] == 0 and draw(st.integers(0, 7)) != 0:
        ws[-1] = 1 + draw(st.integers(0, WMASK - 1))
    ops = []
    kinds = ["d1", "d1", "di", "df"] + (["bad"] if PROP == "C09" else [])
    for _ in range(draw(st.integers(0, 10))):
        k = draw(st.sampled_from(kinds))
        g, j = gj(draw, gs)
        if k == "d1":
            ops.append([k, g, j])
        elif k == "di":
            ops.append([k, g, j, draw(st.integers(0, 5))])
        elif k == "df":
            ops.append([k, g, draw(st.lists(small, min_size=1, max_size=5))])
        else:
            ops.append([k, g, j, draw(small)])
    return {"prop": PROP, "views": draw(views_s), "kind": "chain", "groups": gs, "words": ws, "seal": seal, "ops": ops, "way": draw(st.integers(0, 2)), "reform": draw(st.integers(0, 2))}


@st.composite
def symbol_case(draw):
    n = draw(st.integers(1, 12))
    ws = draw(st.lists(st.one_of(st.integers(0, 12), st.integers(0, 4000), st.sampled_from([0, 1, 2, 4, 8, 1 << 16])), min_size=n, max_size=n))
    return {"prop": PROP, "views": draw(views_s), "kind": "symbol", "weights": ws, "f32": draw(st.booleans()), "msg": draw(st.lists(byte, min_size=0, max_size=40)),
            "extra": draw(st.lists(byte, min_size=0, max_size=6)), "bad": draw(st.one_of(st.none(), st.integers(0, 3), st.sampled_from([2 ** 31, 2 ** 40]))), "dec": draw(st.integers(0, 3)), "mid": draw(st.booleans())}


ALL = {"ans": [("ans", ans_case(), 1)], "range": [("range", range_case(), 3)] + ([("range_arb", range_arb_case(), 2)] if PROP == "C10" else []),
       "chain": [("chain", chain_case(), 1)], "symbol": [("symbol", symbol_case(), 1)]}
if PROP == "C10":
    ALL["range"] = [("range_arb", range_arb_case(), 1)]
STRATS = [s for e in EXPLORERS[PROP] for s in ALL[e]]

failures = []
total_w = sum(w for _, _, w in STRATS)
for idx, (name, strat, w) in enumerate(STRATS):
    n_examples = max(1, A.cases * w // total_w)
    STATE["counting"] = True
    STATE["last_failure"] = None

    @seed(A.seed * 1000003 + A.shard * 101 + idx)
    @settings(max_examples=n_examples, database=None, deadline=None, derandomize=False, suppress_health_check=list(HealthCheck),
              phases=(Phase.generate, Phase.shrink), report_multiple_bugs=False, print_blob=False)
    @given(strat)
    def prop(case):
        guarded(case)

    try:
        prop()
    except Violation:
        failures.append(STATE["last_failure"])
    except BaseException as e:  # noqa: BLE001  an unexpected exception escaping run_case is a harness bug
        import traceback
        tb = traceback.format_exc()
        if STATE["last_failure"] is not None:
            failures.append(STATE["last_failure"])
        else:
            failures.append({"sig": "harness/py_exception", "detail": "%s: %s | %s" % (type(e).__name__, str(e)[:300], tb[-600:]), "example": None})

res = {"executed": STATE["executed"], "nontrivial": STATE["nontrivial"], "hashes": sorted(STATE["hashes"]), "labels": LABELS,
       "samples": STATE["samples"], "failures": failures}
with open(A.out, "w") as f:
    json.dump(res, f)
try:
    os.remove(A.out + ".current")
except FileNotFoundError:
    pass
