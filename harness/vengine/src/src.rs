//! The data provider: decodes a byte string into structured choices.
//!
//! Built on `arbitrary::Unstructured`.  Decoding is total: when the bytes run out every
//! request yields the smallest admissible value, so truncations of a case are cases.
//! Every decoded *value* (not raw byte) is folded into a running hash, which is the
//! canonical identity of the structured case (two byte strings that decode to the same
//! choices are the same case).

use arbitrary::Unstructured;

pub struct Src<'a> {
    u: Unstructured<'a>,
    total: usize,
    hash: u64,
}

impl<'a> Src<'a> {
    pub fn new(bytes: &'a [u8]) -> Self {
        Src {
            u: Unstructured::new(bytes),
            total: bytes.len(),
            hash: 0xcbf2_9ce4_8422_2325,
        }
    }

    #[inline]
    fn mix(&mut self, v: u64) {
        // FNV-1a style on 64-bit lumps, followed by a xorshift to spread low entropy.
        self.hash ^= v.wrapping_add(0x9e37_79b9_7f4a_7c15);
        self.hash = self.hash.wrapping_mul(0x0000_0100_0000_01b3);
        self.hash ^= self.hash >> 29;
    }

    pub fn hash(&self) -> u64 {
        self.hash
    }
    pub fn consumed(&self) -> usize {
        self.total - self.u.len()
    }
    pub fn remaining(&self) -> usize {
        self.u.len()
    }
    pub fn is_empty(&self) -> bool {
        self.u.is_empty()
    }

    /// Uniform-ish value in `0..n` (`n >= 1`). `n == 1` consumes nothing.
    #[inline]
    pub fn below(&mut self, n: u64) -> u64 {
        if n <= 1 {
            return 0;
        }
        let v = self.u.int_in_range(0..=n - 1).unwrap_or(0);
        self.mix(v);
        v
    }
    #[inline]
    pub fn below_usize(&mut self, n: usize) -> usize {
        self.below(n as u64) as usize
    }
    /// Value in `lo..=hi`.
    #[inline]
    pub fn range(&mut self, lo: u64, hi: u64) -> u64 {
        debug_assert!(lo <= hi);
        if hi - lo == u64::MAX {
            return self.u64();
        }
        lo + self.below(hi - lo + 1)
    }
    #[inline]
    pub fn range_usize(&mut self, lo: usize, hi: usize) -> usize {
        self.range(lo as u64, hi as u64) as usize
    }
    #[inline]
    pub fn bool(&mut self) -> bool {
        self.below(2) == 1
    }
    /// True with probability about `num/den`.
    #[inline]
    pub fn ratio(&mut self, num: u64, den: u64) -> bool {
        self.below(den) < num
    }
    #[inline]
    pub fn u8(&mut self) -> u8 {
        self.below(256) as u8
    }
    #[inline]
    pub fn u16(&mut self) -> u16 {
        self.below(1 << 16) as u16
    }
    #[inline]
    pub fn u32(&mut self) -> u32 {
        self.below(1 << 32) as u32
    }
    #[inline]
    pub fn u64(&mut self) -> u64 {
        let v = self.u.int_in_range(0..=u64::MAX).unwrap_or(0);
        self.mix(v);
        v
    }
    #[inline]
    pub fn u128(&mut self) -> u128 {
        ((self.u64() as u128) << 64) | self.u64() as u128
    }
    /// A value of `bits` bits (1..=64).
    #[inline]
    pub fn bits(&mut self, bits: u32) -> u64 {
        if bits >= 64 {
            self.u64()
        } else {
            self.below(1u64 << bits)
        }
    }
    #[inline]
    pub fn pick<T: Copy>(&mut self, xs: &[T]) -> T {
        xs[self.below(xs.len() as u64) as usize]
    }
    /// Index drawn with the given integer weights.
    pub fn weighted(&mut self, weights: &[u32]) -> usize {
        let total: u64 = weights.iter().map(|&w| w as u64).sum();
        let mut r = self.below(total.max(1));
        for (i, &w) in weights.iter().enumerate() {
            if r < w as u64 {
                return i;
            }
            r -= w as u64;
        }
        0
    }
    /// Value in `0..n` from a mixture that favours both ends of the range:
    /// 1/4 within 4 of 0, 1/4 within 4 of `n-1`, 1/2 uniform.
    pub fn edgy(&mut self, n: u64) -> u64 {
        if n <= 1 {
            return 0;
        }
        match self.below(4) {
            0 => self.below(n.min(4)),
            1 => n - 1 - self.below(n.min(4)),
            _ => self.below(n),
        }
    }
    /// A word of `bits` bits from a mixture: random, all-zero, all-ones, single bit,
    /// small, near-max.
    pub fn wordish(&mut self, bits: u32) -> u64 {
        let max = if bits >= 64 { u64::MAX } else { (1u64 << bits) - 1 };
        match self.below(8) {
            0 => 0,
            1 => max,
            2 => 1u64 << self.below(bits as u64),
            3 => self.below(4),
            4 => max - self.below(4).min(max),
            _ => self.bits(bits),
        }
    }
    /// f64 in [0,1) with 53 random bits.
    pub fn unit_f64(&mut self) -> f64 {
        (self.bits(53) as f64) / (1u64 << 53) as f64
    }
}
