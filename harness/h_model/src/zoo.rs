//! A zoo of *valid* library models behind one dynamic interface, so that coder-level
//! explorers (C09, C10, C20) can mix model families without multiplying monomorphised
//! coder code: every model is wrapped into a [`Dyn`] whose symbol type is `i64`.

use crate::gen::*;
use crate::leaky::gen_any_dist;
use constriction::stream::model::*;
use constriction::BitArray;
use core::borrow::Borrow;
use std::rc::Rc;
use vengine::Src;

type DecFn<Pr> = dyn Fn(Pr) -> (i64, Pr, <Pr as BitArray>::NonZero);
type EncFn<Pr> = dyn Fn(i64) -> Option<(Pr, <Pr as BitArray>::NonZero)>;

pub struct Dyn<Pr: BitArray, const P: usize> {
    pub name: String,
    pub dec: Option<Rc<DecFn<Pr>>>,
    pub enc: Option<Rc<EncFn<Pr>>>,
    /// symbols of the declared support (all of them if <= 600, else a sample incl. both ends)
    pub support: Vec<i64>,
    /// whether `support` lists the whole support
    pub support_complete: bool,
    /// membership test for the declared support
    pub member: Rc<dyn Fn(i64) -> bool>,
    /// symbols outside the support: neighbours, extremes, values aliasing after narrowing
    pub outside: Vec<i64>,
}

impl<Pr: BitArray, const P: usize> Clone for Dyn<Pr, P> {
    fn clone(&self) -> Self {
        Dyn {
            name: self.name.clone(),
            dec: self.dec.clone(),
            enc: self.enc.clone(),
            support: self.support.clone(),
            support_complete: self.support_complete,
            member: self.member.clone(),
            outside: self.outside.clone(),
        }
    }
}

impl<Pr: BitArray, const P: usize> EntropyModel<P> for Dyn<Pr, P> {
    type Symbol = i64;
    type Probability = Pr;
}
impl<Pr: BitArray, const P: usize> DecoderModel<P> for Dyn<Pr, P> {
    fn quantile_function(&self, q: Pr) -> (i64, Pr, Pr::NonZero) {
        (self.dec.as_ref().expect("harness: model has no decoder view"))(q)
    }
}
impl<Pr: BitArray, const P: usize> EncoderModel<P> for Dyn<Pr, P> {
    fn left_cumulative_and_probability(&self, s: impl Borrow<i64>) -> Option<(Pr, Pr::NonZero)> {
        (self.enc.as_ref().expect("harness: model has no encoder view"))(*s.borrow())
    }
}

macro_rules! zoo_cfg {
    ($modname:ident, $Pr:ty, $P:literal, lookup = $lookup:tt) => {
        pub mod $modname {
            use super::*;
            pub const P: usize = $P;
            pub type Pr = $Pr;
            pub type Model = Dyn<Pr, P>;

            fn contiguous_like<M>(name: String, m: M, n: usize) -> Model
            where
                M: EncoderModel<P, Symbol = usize, Probability = Pr> + DecoderModel<P> + 'static,
            {
                let m = Rc::new(m);
                let (m1, m2) = (m.clone(), m.clone());
                let bits = <Pr>::BITS as u32;
                let mut outside = vec![n as i64, n as i64 + 1, -1, i64::MAX, i64::MIN];
                // values congruent to an in-support symbol modulo 2^8 / 2^16 / 2^32
                for sh in [8u32, 16, 32, bits] {
                    if sh < 63 {
                        outside.push((1i64 << sh) + (n as i64 - 1));
                        outside.push((1i64 << sh) * 3);
                    }
                }
                outside.retain(|&s| s < 0 || s >= n as i64);
                let support: Vec<i64> = if n <= 600 { (0..n as i64).collect() } else { vec![0, 1, (n / 2) as i64, n as i64 - 2, n as i64 - 1] };
                Dyn {
                    name,
                    dec: Some(Rc::new(move |q| {
                        let (s, l, p) = m1.quantile_function(q);
                        (s as i64, l, p)
                    })),
                    enc: Some(Rc::new(move |s: i64| if s < 0 { None } else { m2.left_cumulative_and_probability(s as usize) })),
                    support_complete: n <= 600,
                    support,
                    member: Rc::new(move |s| s >= 0 && (s as u64) < n as u64),
                    outside,
                }
            }

            /// Draws a valid model. `None` if the (valid) input was rejected by the library
            /// (recorded by the caller as `rejected_valid`).
            pub fn gen(src: &mut Src, need_encoder: bool, need_decoder: bool) -> Option<Model> {
                let total: u64 = 1u64 << P;
                let max_fast = (total as usize).saturating_sub(2).max(2);
                loop {
                    let family = src.below(10);
                    match family {
                        0 => {
                            // harness table
                            let tab = hcommon::gen_tab(src, P as u32, 0, 8);
                            let n = tab.n();
                            let tab = Rc::new(tab);
                            let (t1, t2) = (tab.clone(), tab.clone());
                            return Some(Dyn {
                                name: format!("harness table {}", tab.render()),
                                dec: Some(Rc::new(move |q| {
                                    let (s, l, p) = hcommon::TV::<Pr, P>::new(&t1).quantile_function(q);
                                    (s as i64, l, p)
                                })),
                                enc: Some(Rc::new(move |s: i64| if s < 0 { None } else { hcommon::TV::<Pr, P>::new(&t2).left_cumulative_and_probability(s as usize) })),
                                support: (0..n as i64).collect(),
                                support_complete: true,
                                member: Rc::new(move |s| s >= 0 && (s as usize) < n),
                                outside: vec![n as i64, -1, i64::MAX],
                            });
                        }
                        1 => {
                            let range = (2 + src.edgy(total - 1)) as usize;
                            let m = UniformModel::<Pr, P>::new(range);
                            return Some(contiguous_like(format!("UniformModel::new({range})"), m, range));
                        }
                        2 | 3 | 4 => {
                            let n = 2 + src.below_usize(62.min(max_fast - 1).max(1));
                            let n = n.min(max_fast);
                            let tab = valid_float_table(src, n);
                            let r = match family {
                                2 => ContiguousCategoricalEntropyModel::<Pr, _, P>::from_floating_point_probabilities_fast(&tab, None),
                                3 => ContiguousCategoricalEntropyModel::<Pr, _, P>::from_floating_point_probabilities_perfect(&tab),
                                _ => {
                                    let fx: Vec<Pr> = valid_fixed_table(src, P as u32, 40).into_iter().map(|x| x as Pr).collect();
                                    let k = fx.len();
                                    match ContiguousCategoricalEntropyModel::<Pr, _, P>::from_nonzero_fixed_point_probabilities(fx.iter(), false) {
                                        Ok(m) => return Some(contiguous_like(format!("contiguous fixed-point {:?}", fx), m, k)),
                                        Err(()) => return None,
                                    }
                                }
                            };
                            match r {
                                Ok(m) => return Some(contiguous_like(format!("contiguous {} {:?}", if family == 2 { "_fast" } else { "_perfect" }, tab), m, n)),
                                Err(()) => return None,
                            }
                        }
                        5 => {
                            let n = (2 + src.below_usize(30)).min(max_fast);
                            let tab = valid_float_table(src, n);
                            if src.bool() {
                                let t32 = to_f32_valid(&tab);
                                match LazyContiguousCategoricalEntropyModel::<Pr, f32, _, P>::from_floating_point_probabilities_fast(t32.clone(), None) {
                                    Ok(m) => return Some(contiguous_like(format!("lazy f32 {:?}", t32), m, n)),
                                    Err(()) => return None,
                                }
                            } else {
                                match LazyContiguousCategoricalEntropyModel::<Pr, f64, _, P>::from_floating_point_probabilities_fast(tab.clone(), None) {
                                    Ok(m) => return Some(contiguous_like(format!("lazy f64 {:?}", tab), m, n)),
                                    Err(()) => return None,
                                }
                            }
                        }
                        6 => {
                            // non-contiguous encoder + decoder over arbitrary distinct symbols
                            let n = (2 + src.below_usize(30)).min(max_fast);
                            let tab = valid_float_table(src, n);
                            let base = src.u32() as i32 as i64;
                            let stride = 1 + src.below(1000) as i64;
                            let syms: Vec<i64> = (0..n as i64).map(|i| base + i * stride).collect();
                            let e = NonContiguousCategoricalEncoderModel::<i64, Pr, P>::from_symbols_and_floating_point_probabilities_fast(syms.iter().cloned(), &tab, None);
                            let d = NonContiguousCategoricalDecoderModel::<i64, Pr, _, P>::from_symbols_and_floating_point_probabilities_fast(syms.iter().cloned(), &tab, None);
                            match (e, d) {
                                (Ok(e), Ok(d)) => {
                                    let set: std::collections::BTreeSet<i64> = syms.iter().cloned().collect();
                                    return Some(Dyn {
                                        name: format!("non-contiguous _fast {:?} symbols {:?}", tab, syms),
                                        dec: Some(Rc::new(move |q| d.quantile_function(q))),
                                        enc: Some(Rc::new(move |s: i64| e.left_cumulative_and_probability(s))),
                                        outside: vec![base - 1, base + 1 + (n as i64 - 1) * stride, base - stride, i64::MAX, i64::MIN, base + (1i64 << 32), base + (1i64 << 16)]
                                            .into_iter()
                                            .filter(|s| !set.contains(s))
                                            .collect(),
                                        support: syms,
                                        support_complete: true,
                                        member: Rc::new(move |s| set.contains(&s)),
                                    });
                                }
                                _ => return None,
                            }
                        }
                        7 => {
                            if need_encoder {
                                continue; // decoder-only family
                            }
                            zoo_lookup!($lookup, Pr, P, src, max_fast);
                        }
                        _ => {
                            // leakily quantised distribution over i32 symbols, arbitrary hint
                            let size = 2 + src.edgy(total.min(600) - 1) as i64;
                            let lo = match src.below(4) {
                                0 => i32::MIN as i64,
                                1 => i32::MAX as i64 - size + 1,
                                _ => src.u32() as i32 as i64 / 2,
                            };
                            let lo = lo.clamp(i32::MIN as i64, i32::MAX as i64 - size + 1);
                            let hi = lo + size - 1;
                            let q = LeakyQuantizer::<f64, i32, Pr, P>::new(lo as i32..=hi as i32);
                            let dist = match gen_any_dist(src, lo, hi) {
                                Some(d) => d,
                                None => continue,
                            };
                            let name = format!("LeakyQuantizer::<f64,i32,_,{}>::new({}..={}).quantize({})", P, lo, hi, dist.describe());
                            let m = Rc::new(q.quantize(dist));
                            let (m1, m2) = (m.clone(), m.clone());
                            let _ = (need_decoder,);
                            return Some(Dyn {
                                name,
                                dec: Some(Rc::new(move |q| {
                                    let (s, l, p) = m1.quantile_function(q);
                                    (s as i64, l, p)
                                })),
                                enc: Some(Rc::new(move |s: i64| if s < i32::MIN as i64 || s > i32::MAX as i64 { None } else { m2.left_cumulative_and_probability(s as i32) })),
                                support: (lo..=hi).collect(),
                                support_complete: true,
                                member: Rc::new(move |s| s >= lo && s <= hi),
                                outside: vec![lo - 1, hi + 1, i32::MIN as i64, i32::MAX as i64, i64::MAX, i64::MIN, lo + (1i64 << 32), hi - (1i64 << 32)]
                                    .into_iter()
                                    .filter(|&s| s < lo || s > hi)
                                    .collect(),
                            });
                        }
                    }
                }
            }
        }
    };
}

macro_rules! zoo_lookup {
    (true, $Pr:ty, $P:expr, $src:expr, $max_fast:expr) => {{
        // (the largest choice stands for the maximal table at P = 8: 2^P symbols of one quantum each, index type exactly full)
        let raw_n = $src.below_usize(30);
        let full = $P == 8 && raw_n >= 27;
        let n = if full { 256 } else { (2 + raw_n).min($max_fast) };
        let tab = if full { vec![1.0; n] } else { valid_float_table($src, n) };
        let ones: Vec<$Pr> = vec![1 as $Pr; if full { n } else { 0 }];
        if $src.bool() {
            // built by its own constructor or (odd n) by converting a searched model
            let built = if full {
                ContiguousLookupDecoderModel::<$Pr, _, _, $P>::from_nonzero_fixed_point_probabilities(ones.iter(), false)
            } else if n % 2 == 0 {
                ContiguousLookupDecoderModel::<$Pr, _, _, $P>::from_floating_point_probabilities_fast(&tab, None)
            } else {
                ContiguousCategoricalEntropyModel::<$Pr, _, $P>::from_floating_point_probabilities_fast(&tab, None).map(|m| m.to_lookup_decoder_model())
            };
            match built {
                Ok(m) => {
                    return Some(Dyn {
                        name: format!("contiguous lookup {} {:?}", if n % 2 == 0 { "_fast" } else { "via to_lookup_decoder_model" }, tab),
                        dec: Some(Rc::new(move |q| {
                            let (s, l, p) = m.quantile_function(q);
                            (s as i64, l, p)
                        })),
                        enc: None,
                        support: (0..n as i64).collect(),
                        support_complete: true,
                        member: Rc::new(move |s| s >= 0 && (s as usize) < n),
                        outside: vec![n as i64, -1],
                    })
                }
                Err(()) => return None,
            }
        } else {
            let syms: Vec<i64> = (0..n as i64).map(|i| 5000 - 11 * i).collect();
            let built = if full {
                NonContiguousLookupDecoderModel::<i64, $Pr, _, _, $P>::from_symbols_and_nonzero_fixed_point_probabilities(syms.iter().cloned(), ones.iter(), false)
            } else if n % 2 == 0 {
                NonContiguousLookupDecoderModel::<i64, $Pr, _, _, $P>::from_symbols_and_floating_point_probabilities_perfect(syms.iter().cloned(), &tab)
            } else {
                NonContiguousCategoricalDecoderModel::<i64, $Pr, _, $P>::from_symbols_and_floating_point_probabilities_perfect(syms.iter().cloned(), &tab)
                    .map(|m| m.to_lookup_decoder_model())
            };
            match built {
                Ok(m) => {
                    let set: std::collections::BTreeSet<i64> = syms.iter().cloned().collect();
                    return Some(Dyn {
                        name: format!("non-contiguous lookup {} {:?}", if n % 2 == 0 { "_perfect" } else { "via to_lookup_decoder_model" }, tab),
                        dec: Some(Rc::new(move |q| m.quantile_function(q))),
                        enc: None,
                        support: syms,
                        support_complete: true,
                        member: Rc::new(move |s| set.contains(&s)),
                        outside: vec![5001, -1],
                    })
                }
                Err(()) => return None,
            }
        }
    }};
    (false, $Pr:ty, $P:expr, $src:expr, $max_fast:expr) => {{
        let _ = $max_fast;
        continue;
    }};
}

zoo_cfg!(z_u8_8, u8, 8, lookup = true);
zoo_cfg!(z_u16_12, u16, 12, lookup = true);
zoo_cfg!(z_u16_16, u16, 16, lookup = true);
zoo_cfg!(z_u32_24, u32, 24, lookup = false);
zoo_cfg!(z_u32_32, u32, 32, lookup = false);
