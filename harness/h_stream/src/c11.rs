//! C11 — range-coded data is unaffected by whatever words follow it.
//!
//! One case holds up to 48 short messages (the violating region depends on the final
//! `(lower, range)` only, so many short messages beat few long ones).  Each message is
//! 0..6 random symbols followed by a final symbol that is, with probability 3/4,
//! *steered*: its `(left cumulative, probability)` is computed from the encoder's public
//! `state()` so that `range` lands just above `2^(S-W)` and the low part of `lower` just
//! above a word boundary — the corner in which the seal needs its extra zero words.
//! Blind search reaches that corner about once in 10^7 messages with 8-bit words and
//! never with wider words; the steered generator reaches it in a sizeable fraction of
//! cases for every word size.
//!
//! Oracle: decoding `sealed ++ suffix` (suffix: all-ones words, zeros, random words, or a
//! second sealed message written by an encoder started on the sink that already holds the
//! first) yields exactly the original symbols; a decoder started at the recorded word
//! offset yields the second message.

use constriction::stream::queue::{RangeDecoder, RangeEncoder};
use constriction::stream::{Code, Decode, Encode};
use constriction::UnwrapInfallible;
use hcommon::{gen_tab, hexwords, Tab};
use vengine::{note, vassume, vcheck, vfail, CaseResult, Ctx, Src};

macro_rules! precs {
    ([$(($Pr:ty, $P:literal)),+]) => { [$($P as u32),+] };
}

macro_rules! c11_row {
    ($name:ident, $label:literal, $W:ty, $S:ty, $plist:tt) => {
        pub fn $name(src: &mut Src, ctx: &mut Ctx) -> CaseResult {
            type Enc = RangeEncoder<$W, $S, Vec<$W>>;
            const PRECS: &[u32] = &precs!($plist);
            ctx.label(concat!("cfg:", $label));
            note!(ctx, "cfg {}", $label);
            let wbits = <$W>::BITS as usize;
            let sbits = <$S>::BITS as usize;
            let nwords_state = sbits / wbits;
            let mut n_msgs = 0;
            // every other message is written by the encoder of the message before it, emptied with `clear()` ("resets the
            // coder to the same state as new()"): back-to-back messages from one reused encoder
            let mut reuse: Option<Enc> = None;
            while n_msgs < 48 && !src.is_empty() {
                n_msgs += 1;
                let mut enc = match reuse.take() {
                    Some(mut e) => {
                        e.clear();
                        ctx.label("encoder_reused_after_clear");
                        e
                    }
                    None => Enc::new(),
                };
                let mut msg: Vec<(usize, Tab)> = Vec::new();
                let k = src.below_usize(7);
                let steer = src.ratio(3, 4);
                for _ in 0..k {
                    let sel = src.below(PRECS.len() as u64) as u8;
                    let tab = gen_tab(src, PRECS[sel as usize], sel, 6);
                    let sym = src.below_usize(tab.n());
                    let r = with_prec!(tab.sel, $plist, |M| enc.encode_symbol(sym, M::new(&tab)));
                    vassume!(ctx, r.is_ok(), "foreign:C02/encode_failed");
                    msg.push((sym, tab));
                }
                if steer || k == 0 {
                    // final symbol computed from the encoder's public state
                    let sel = src.below(PRECS.len() as u64) as u8;
                    let prec = PRECS[sel as usize];
                    let total = 1u128 << prec;
                    let st = enc.state();
                    let (lower, range) = (st.lower() as u128, st.range().get() as u128);
                    let scale = range >> prec;
                    let thr = 1u128 << (sbits - wbits);
                    // smallest p (>= 1) with scale * p * 2^(W*j) >= 2^(S-W) for j = 0 or 1
                    let mut p = (thr + scale - 1) / scale;
                    if p >= total {
                        p = ((thr >> wbits) + scale - 1) / scale;
                    }
                    p = p.max(1) + src.below(3) as u128;
                    let p = p.min(total - 1).max(1);
                    // c in 0..=total-p bringing (lower + scale*c) mod 2^(S-W) just above 0
                    let cmax = total - p;
                    let low_part = lower & (thr - 1);
                    let want = (thr - low_part) & (thr - 1); // distance to the next boundary
                    let mut c = if scale == 0 { 0 } else { (want + scale - 1) / scale };
                    c += src.below(2) as u128;
                    if c > cmax {
                        c = src.below(cmax as u64 + 1) as u128;
                    }
                    let mut cdf = vec![0u64];
                    if c > 0 {
                        cdf.push(c as u64);
                    }
                    let sym = cdf.len() - 1;
                    cdf.push((c + p) as u64);
                    if c + p < total {
                        cdf.push(total as u64);
                    }
                    if cdf.len() < 3 {
                        // a one-symbol table is not well-formed; fall back to a random symbol
                        let tab = gen_tab(src, prec, sel, 6);
                        let sym = src.below_usize(tab.n());
                        let r = with_prec!(tab.sel, $plist, |M| enc.encode_symbol(sym, M::new(&tab)));
                        vassume!(ctx, r.is_ok(), "foreign:C02/encode_failed");
                        msg.push((sym, tab));
                    } else {
                        let tab = Tab { cdf, prec, sel };
                        ctx.label("steered_final_symbol");
                        let r = with_prec!(tab.sel, $plist, |M| enc.encode_symbol(sym, M::new(&tab)));
                        vassume!(ctx, r.is_ok(), "foreign:C02/encode_failed");
                        msg.push((sym, tab));
                    }
                }
                // classify the final state (harness-side arithmetic on the public state)
                let st = enc.state();
                let (lower, range) = (st.lower() as u128, st.range().get() as u128);
                let smask: u128 = if sbits == 128 { u128::MAX } else { (1u128 << sbits) - 1 };
                let thr = 1u128 << (sbits - wbits);
                let point = lower.wrapping_add(thr - 1) & smask;
                let upper = lower.wrapping_add(range) & smask;
                let pw = point >> (sbits - wbits);
                let two_words = (upper >> (sbits - wbits)) == pw;
                if two_words {
                    ctx.label("seal_needs_zero_word");
                    ctx.nontrivial();
                    if nwords_state > 2 {
                        let base = (pw << (sbits - wbits)).wrapping_sub(lower) & smask;
                        if base + ((1u128 << (sbits - 2 * wbits)) - 1) >= range {
                            ctx.label("deep_region(one_zero_word_not_enough)");
                        }
                    }
                }
                let words: Vec<$W> = if n_msgs % 2 == 1 {
                    let w = enc.get_compressed().to_vec();
                    reuse = Some(enc);
                    w
                } else {
                    enc.into_compressed().unwrap_infallible()
                };
                let suffix_kind = src.below(5);
                let suffix_len = nwords_state + 2;
                let mut all = words.clone();
                let mut msg2: Vec<(usize, Tab)> = Vec::new();
                match suffix_kind {
                    0 | 1 => all.extend(core::iter::repeat(<$W>::MAX).take(suffix_len)),
                    2 => all.extend(core::iter::repeat(0 as $W).take(suffix_len)),
                    3 => {
                        for _ in 0..suffix_len {
                            all.push(src.wordish(wbits as u32) as $W);
                        }
                    }
                    _ => {
                        // a second message written by an encoder started on the existing data
                        let mut e2 = Enc::with_backend(words.clone());
                        for _ in 0..src.range_usize(1, 4) {
                            let sel = src.below(PRECS.len() as u64) as u8;
                            let tab = gen_tab(src, PRECS[sel as usize], sel, 6);
                            // high symbols give large cumulatives, i.e. leading one bits
                            let sym = tab.n() - 1 - src.below_usize(tab.n().min(2));
                            let r = with_prec!(tab.sel, $plist, |M| e2.encode_symbol(sym, M::new(&tab)));
                            vassume!(ctx, r.is_ok(), "foreign:C02/encode_failed");
                            msg2.push((sym, tab));
                        }
                        all = e2.into_compressed().unwrap_infallible();
                        vcheck!(all.len() >= words.len() && all[..words.len()] == words[..], "C11/second_message_changed_first", "first {} all {}", hexwords(&words), hexwords(&all));
                        ctx.label("suffix:second_message");
                    }
                }
                if ctx.tracing {
                    note!(ctx, "message {}: {} symbols, sealed {} followed by {}", n_msgs, msg.len(), hexwords(&words), hexwords(&all[words.len()..]));
                    for (s, t) in &msg {
                        note!(ctx, "   sym={} {}", s, t.render());
                    }
                }
                let mut d = RangeDecoder::<$W, $S, _>::from_compressed(&all[..]).unwrap_infallible();
                for (i, (sym, tab)) in msg.iter().enumerate() {
                    let r = with_prec!(tab.sel, $plist, |M| d.decode_symbol(M::new(tab)).map_err(|e| format!("{:?}", e)));
                    match r {
                        Ok(s) if s == *sym => {}
                        other => {
                            let sig = if nwords_state > 2 { "C11/suffix_changes_decoding/state_wider_than_two_words" } else { "C11/suffix_changes_decoding/two_word_state" };
                            vfail!(
                                sig,
                                "symbol {} of {} decodes as {:?} instead of {} when {} is followed by {} (final lower={:x} range={:x}; last table {})",
                                i,
                                msg.len(),
                                other,
                                sym,
                                hexwords(&words),
                                hexwords(&all[words.len()..]),
                                lower,
                                range,
                                tab.render()
                            );
                        }
                    }
                }
                if !msg2.is_empty() {
                    let mut d2 = RangeDecoder::<$W, $S, _>::from_compressed(&all[words.len()..]).unwrap_infallible();
                    for (i, (sym, tab)) in msg2.iter().enumerate() {
                        let r = with_prec!(tab.sel, $plist, |M| d2.decode_symbol(M::new(tab)).ok());
                        vcheck!(r == Some(*sym), "C11/second_message_unreadable", "second message symbol {} decodes as {:?} instead of {} at word offset {} of {}", i, r, sym, words.len(), hexwords(&all));
                    }
                }
            }
            Ok(())
        }
    };
}

pub mod rows {
    use super::*;
    for_ans_rows!(c11_row);
}

pub fn c11_suffix(src: &mut Src, ctx: &mut Ctx) -> CaseResult {
    // 8-bit-word rows carry the blind-search power; wide-state rows are where the seal is delicate
    match src.weighted(&[2, 3, 3, 2, 3, 1, 2, 2]) {
        0 => rows::r_u8_u16(src, ctx),
        1 => rows::r_u8_u32(src, ctx),
        2 => rows::r_u8_u64(src, ctx),
        3 => rows::r_u16_u32(src, ctx),
        4 => rows::r_u16_u64(src, ctx),
        5 => rows::r_u32_u64(src, ctx),
        6 => rows::r_u32_u128(src, ctx),
        _ => rows::r_u64_u128(src, ctx),
    }
}
