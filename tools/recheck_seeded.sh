#!/bin/bash
# usage: tools/recheck_seeded.sh <name e.g. C05b> <check ids...>
# re-runs the named checks against an already confirmed seeded change and records the outcome in verified.json
# (keeps the earlier outcome as "before_strengthening" when it differs)
set -u
cd "$(dirname "$0")/.."
NAME=$1; shift
OUT=$(tools/try_patch.py seeded/$NAME/patch.diff "$@" 2>&1)
echo "$OUT" | grep -E "signature|SUMMARY|INCONCL" | cut -c1-260
python3 - "$NAME" "$OUT" "$@" <<'PY'
import json,sys,re
name,out=sys.argv[1],sys.argv[2]; ids=sys.argv[3:]
p='seeded/%s/verified.json'%name
v=json.load(open(p))
sigs=re.findall(r'signature: (\S.*?)  \(',out)
summ=[l for l in out.splitlines() if l.startswith('SUMMARY')]
new=summ[-1] if summ else ""
if v.get("summary_line") and v["summary_line"]!=new and "before_strengthening" not in v:
    v["before_strengthening"]={"summary_line":v["summary_line"],"signatures":v.get("signatures",[])}
v["ran_checks"]="tools/try_patch.py seeded/%s/patch.diff %s"%(name," ".join(ids))
v["summary_line"]=new; v["signatures"]=sigs
json.dump(v,open(p,'w'),indent=1)
PY
