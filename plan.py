"""The plan: which harness targets decide which property, and with how many cases.

quick    = fixed work you would run on every change (seconds to a minute on 16 cores)
thorough = 20-50x deeper, larger structures (ctx.tier = 1)
"""

def item(bin, target, quick, thorough, param=0):
    return {"bin": bin, "target": target, "quick": quick, "thorough": thorough, "param": param}

PLAN = {
    "C01": [item("h_stream", "c01_ans", 480_000, 24_000_000)],
}

RULES = {
    "C01": "case = byte string decoded into (config row, start state, <=60 ops (quick) / <=200 (thorough) from "
           "{encode, decode, 6 batch-encode forms, 3 batch-decode forms, 3 re-imports, 8 read-only decoder views, clone}) "
           "with harness table models whose precision varies per symbol; non-trivial = at least one push popped again "
           "after a word was flushed to bulk or after a re-import; distinct = distinct canonical hash of the decoded choices",
}
