//! Harness binary for the stream coders (ANS stack coder, range coder).

#[macro_use]
mod cfg;
mod c01;

use vengine::{PanicPolicy, Target};

fn main() {
    let targets = [Target {
        name: "c01_ans",
        props: "C01",
        policy: PanicPolicy::AllViolations,
        max_len: 1024,
        run: c01::c01_ans,
    }];
    vengine::main(&targets);
}
