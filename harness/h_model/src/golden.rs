//! C06 — byte-exact example outputs printed in the project's own documentation
//! (`src/lib.rs` / `README-rust.md`, `src/stream/mod.rs`, `src/stream/stack.rs`,
//! `src/stream/chain.rs`, and the Rust-expressible vectors of
//! `tests/python/test_docexamples.py`, whose Python classes are thin wrappers around the
//! default-preset Rust types).  The case bytes are ignored: every run executes all vectors.
//! A change that keeps encoder and decoder mutually consistent but alters the bit stream
//! fails here.

use constriction::stream::chain::DefaultChainCoder;
use constriction::stream::model::{DefaultContiguousCategoricalEntropyModel, DefaultLeakyQuantizer};
use constriction::stream::queue::{DefaultRangeDecoder, DefaultRangeEncoder};
use constriction::stream::stack::DefaultAnsCoder;
use constriction::stream::{Decode, Encode};
use constriction::UnwrapInfallible;
use probability::distribution::Gaussian;
use vengine::{vcheck, CaseResult, Ctx, Src};

fn hex(v: &[u32]) -> String {
    format!("{:x?}", v)
}

pub fn c06_golden(_src: &mut Src, ctx: &mut Ctx) -> CaseResult {
    ctx.nontrivial();
    // ---- lib.rs / README-rust.md: Gaussian example, ANS and range coder -----------------
    let symbols = [23i32, -15, 78, 43, -69];
    let means = [35.2, -1.7, 30.1, 71.2, -75.1];
    let stds = [10.1, 25.3, 23.8, 35.4, 3.9];
    let quantizer = DefaultLeakyQuantizer::new(-100..=100);
    let models = || means.iter().zip(&stds).map(|(&m, &s)| quantizer.quantize(Gaussian::new(m, s)));
    {
        let mut coder = DefaultAnsCoder::new();
        let r = coder.encode_symbols_reverse(symbols.iter().zip(models()).map(|(&s, m)| (s, m)));
        vcheck!(r.is_ok(), "C06/golden/readme_ans_encode", "{:?}", r);
        let words = coder.into_compressed().unwrap_infallible();
        vcheck!(words == [0x421C_7EC3, 0x000B_8ED1], "C06/golden/readme_ans_encode", "README ANS example encodes to {} instead of [421c7ec3, b8ed1]", hex(&words));
        let mut dec = match DefaultAnsCoder::from_compressed(vec![0x421C_7EC3u32, 0x000B_8ED1]) {
            Ok(d) => d,
            Err(_) => vengine::vfail!("C06/golden/readme_ans_decode", "from_compressed rejected the documented words"),
        };
        let got: Vec<i32> = dec.decode_symbols(models()).map(|r| r.unwrap_infallible()).collect();
        vcheck!(got == symbols, "C06/golden/readme_ans_decode", "README ANS words decode to {:?}", got);
    }
    {
        let mut enc = DefaultRangeEncoder::new();
        let r = enc.encode_symbols(symbols.iter().zip(models()).map(|(&s, m)| (s, m)));
        vcheck!(r.is_ok(), "C06/golden/readme_range_encode", "{:?}", r);
        let words = enc.into_compressed().unwrap_infallible();
        vcheck!(words == [0x1C31_EFEB, 0x87B4_30DA], "C06/golden/readme_range_encode", "README range-coder example encodes to {} instead of [1c31efeb, 87b430da]", hex(&words));
        let mut dec = DefaultRangeDecoder::from_compressed(words).unwrap_infallible();
        let got: Result<Vec<i32>, _> = dec.decode_symbols(models()).collect();
        vcheck!(matches!(&got, Ok(g) if g[..] == symbols[..]), "C06/golden/readme_range_decode", "{:?}", got);
    }
    // ---- stream/mod.rs: decode_symbols example -------------------------------------------
    {
        let mut dec = match DefaultAnsCoder::from_compressed(vec![0x2C63_D22Eu32, 0x0000_0377]) {
            Ok(d) => d,
            Err(_) => vengine::vfail!("C06/golden/mod_rs_decode", "from_compressed rejected the documented words"),
        };
        let q = DefaultLeakyQuantizer::new(-100i32..=100);
        let got: Vec<i32> = dec.decode_symbols((0..5).map(|i| q.quantize(Gaussian::new((i * 10) as f64, 10.0)))).map(|r| r.unwrap_infallible()).collect();
        vcheck!(got == [-3, 12, 19, 28, 41], "C06/golden/mod_rs_decode", "[2c63d22e, 377] decodes to {:?} instead of [-3, 12, 19, 28, 41]", got);
    }
    // ---- stack.rs: from_binary / into_compressed ------------------------------------------
    {
        let data = vec![0x89ab_cdefu32, 0x0123_4567];
        let c = DefaultAnsCoder::from_binary(data.clone()).unwrap_infallible();
        let w = c.into_compressed().unwrap_infallible();
        vcheck!(w == [0x89ab_cdef, 0x0123_4567, 1], "C06/golden/stack_rs_from_binary", "{}", hex(&w));
    }
    // ---- chain.rs module docs: ANS vs chain coder on the same data ------------------------
    {
        let data = vec![0x80d1_4131u32, 0xdda9_7c6c, 0x5017_a640, 0x0117_0a3e];
        let probs = [[0.1, 0.7, 0.1, 0.1], [0.2, 0.2, 0.1, 0.5], [0.2, 0.1, 0.4, 0.3]];
        let ms = |p: &[[f64; 4]; 3]| -> Vec<_> { p.iter().map(|x| DefaultContiguousCategoricalEntropyModel::from_floating_point_probabilities_fast(&x[..], None).unwrap()).collect() };
        let mut a = DefaultAnsCoder::from_binary(data.clone()).unwrap_infallible();
        let got: Vec<usize> = a.decode_symbols(ms(&probs).iter()).map(|r| r.unwrap_infallible()).collect();
        vcheck!(got == [0, 0, 2], "C06/golden/chain_rs_ans", "{:?}", got);
        let mut c = match DefaultChainCoder::from_binary(data.clone()) {
            Ok(c) => c,
            Err(_) => vengine::vfail!("C06/golden/chain_rs_chain", "from_binary failed"),
        };
        let got: Result<Vec<usize>, _> = c.decode_symbols(ms(&probs).iter()).collect();
        vcheck!(matches!(&got, Ok(g) if g[..] == [0, 3, 3]), "C06/golden/chain_rs_chain", "{:?}", got);
        let mut p2 = probs;
        p2[0] = [0.09, 0.71, 0.1, 0.1];
        let mut a = DefaultAnsCoder::from_binary(data.clone()).unwrap_infallible();
        let got: Vec<usize> = a.decode_symbols(ms(&p2).iter()).map(|r| r.unwrap_infallible()).collect();
        vcheck!(got == [1, 0, 0], "C06/golden/chain_rs_ans", "{:?}", got);
    }
    // ---- tests/python/test_docexamples.py (Categorical(.., perfect=False) is the default
    //      contiguous model built by _fast from f64; QuantizedGaussian is DefaultLeakyQuantizer<f64, i32>)
    let cat = match DefaultContiguousCategoricalEntropyModel::from_floating_point_probabilities_fast(&[0.1f64, 0.6, 0.3], None) {
        Ok(m) => m,
        Err(()) => vengine::vfail!("C06/golden/py_categorical", "constructor failed"),
    };
    {
        let mut c = DefaultAnsCoder::from_compressed(vec![2514924296u32, 114]).map_err(|_| vengine::Fail::new("C06/golden/py_ans_decode1", "rejected"))?;
        let s = c.decode_symbol(&cat).unwrap_infallible();
        vcheck!(s == 2, "C06/golden/py_ans_decode1", "{}", s);
        let mut c = DefaultAnsCoder::from_compressed(vec![1441153686u32, 108]).map_err(|_| vengine::Fail::new("C06/golden/py_ans_decode2", "rejected"))?;
        let got: Vec<usize> = c.decode_iid_symbols(9, &cat).map(|r| r.unwrap_infallible()).collect();
        vcheck!(got == [2, 0, 0, 1, 2, 2, 1, 2, 2], "C06/golden/py_ans_decode2", "{:?}", got);
        let mut c = DefaultAnsCoder::new();
        let r = c.encode_iid_symbols_reverse(&[0usize, 2, 1, 2, 0, 2, 0, 2, 1], &cat);
        vcheck!(r.is_ok(), "C06/golden/py_ans_encode_reverse2", "{:?}", r);
        let w = c.into_compressed().unwrap_infallible();
        vcheck!(w == [1276728145, 172], "C06/golden/py_ans_encode_reverse2", "{:?}", w);
    }
    {
        let q = DefaultLeakyQuantizer::new(-100i32..=100);
        let (m3, s3) = ([10.3, -4.7, 20.5], [5.2, 24.2, 3.1]);
        let ms = || m3.iter().zip(&s3).map(|(&m, &s)| q.quantize(Gaussian::new(m, s)));
        let mut c = DefaultAnsCoder::from_compressed(vec![597775281u32, 3]).map_err(|_| vengine::Fail::new("C06/golden/py_ans_decode3", "rejected"))?;
        let got: Vec<i32> = c.decode_symbols(ms()).map(|r| r.unwrap_infallible()).collect();
        vcheck!(got == [12, -13, 25], "C06/golden/py_ans_decode3", "{:?}", got);
        let mut c = DefaultAnsCoder::new();
        let r = c.encode_symbols_reverse([12i32, -13, 25].iter().zip(ms()).map(|(&s, m)| (s, m)));
        vcheck!(r.is_ok(), "C06/golden/py_ans_encode_reverse3", "{:?}", r);
        let w = c.into_compressed().unwrap_infallible();
        vcheck!(w == [597775281, 3], "C06/golden/py_ans_encode_reverse3", "{:?}", w);
        let mut e = DefaultRangeEncoder::new();
        let r = e.encode_symbols([12i32, -13, 25].iter().zip(ms()).map(|(&s, m)| (s, m)));
        vcheck!(r.is_ok(), "C06/golden/py_range_encode3", "{:?}", r);
        let w = e.into_compressed().unwrap_infallible();
        vcheck!(w == [2655472005], "C06/golden/py_range_encode3", "{:?}", w);
    }
    {
        let mut e = DefaultRangeEncoder::new();
        let r = e.encode_iid_symbols(&[0usize, 2, 1, 2, 0, 2, 0, 2, 1], &cat);
        vcheck!(r.is_ok(), "C06/golden/py_range_encode2", "{:?}", r);
        let w = e.into_compressed().unwrap_infallible();
        vcheck!(w == [369323576], "C06/golden/py_range_encode2", "{:?}", w);
        let mut d = DefaultRangeDecoder::from_compressed(w).unwrap_infallible();
        let got: Result<Vec<usize>, _> = d.decode_iid_symbols(9, &cat).collect();
        vcheck!(matches!(&got, Ok(g) if g[..] == [0, 2, 1, 2, 0, 2, 0, 2, 1]), "C06/golden/py_range_decode2", "{:?}", got);
        let mut d = DefaultRangeDecoder::from_compressed(vec![3089773345u32, 1894195597]).unwrap_infallible();
        let s = d.decode_symbol(&cat);
        vcheck!(matches!(s, Ok(2)), "C06/golden/py_range_decode1", "{:?}", s);
    }
    {
        // test_module_example3: Gaussian part + categorical part in one range-coded stream
        let message = [6i32, 10, -4, 2, 5];
        let (m5, s5) = ([2.3, 6.1, -8.5, 4.1, 1.3], [6.2, 5.3, 3.8, 3.2, 4.7]);
        let q = DefaultLeakyQuantizer::new(-50i32..=50);
        let cat2 = DefaultContiguousCategoricalEntropyModel::from_floating_point_probabilities_fast(&[0.2f64, 0.5, 0.3], None).map_err(|_| vengine::Fail::new("C06/golden/py_module_example3", "ctor"))?;
        let mut e = DefaultRangeEncoder::new();
        let r = e.encode_symbols(message.iter().zip(m5.iter().zip(&s5)).map(|(&s, (&m, &sd))| (s, q.quantize(Gaussian::new(m, sd)))));
        vcheck!(r.is_ok(), "C06/golden/py_module_example3", "{:?}", r);
        let r = e.encode_iid_symbols(&[2usize, 1, 0, 2], &cat2);
        vcheck!(r.is_ok(), "C06/golden/py_module_example3", "{:?}", r);
        let w = e.into_compressed().unwrap_infallible();
        vcheck!(w == [3176507208], "C06/golden/py_module_example3", "{:?}", w);
    }
    ctx.label("golden_vectors_checked");
    Ok(())
}
