; ModuleID = 'autocfg_97ef8a6998a62f0b_0.814c8eef39e35936-cgu.0'
source_filename = "autocfg_97ef8a6998a62f0b_0.814c8eef39e35936-cgu.0"
target datalayout = "e-m:e-p270:32:32-p271:32:32-p272:64:64-i64:64-i128:128-f80:128-n8:16:32:64-S128"
target triple = "x86_64-unknown-linux-gnu"

!llvm.module.flags = !{!0, !1}
!llvm.ident = !{!2}

!0 = !{i32 8, !"PIC Level", i32 2}
!1 = !{i32 2, !"RtLibUseGOT", i32 1}
!2 = !{!"rustc version 1.95.0 (59807616e 2026-04-14)"}
