#!/usr/bin/env python3
"""C19 through the Python front end (src/pybindings/stream/model.rs).

Hypothesis generates arguments for every Python model constructor (concrete models and model
families whose parameters arrive with the encode / decode call): hostile float tables, NaN /
infinite / negative parameters, empty, single-element and oversized supports.

Oracle (the statement of C19, observed through the only thing Python can see - coding):
  * the constructor (or, for a family, the first use with parameters) may fail with ANY Python
    exception, including pyo3's PanicException: that is "fails cleanly (an error value or a
    panic)";  a killed interpreter (signal) or a call that does not return is not;
  * if it returns a model, the model must behave like one that satisfies C03 on its
    documented support: every support symbol that is tried can be encoded, ANS and range
    coder round trips return the symbols, decoding arbitrary words yields support symbols
    only, and the two neighbours of the support are refused;
  * a support of a single symbol is never accepted.
Rejections of valid input are counted, never judged.

  python3-vt c19_py.py --so-dir D --seed N --cases N --shard K --out result.json
  python3-vt c19_py.py --so-dir D --replay case.json        (exit 1 + "PY-VIOLATION sig" on failure)

Every random choice is made by Hypothesis (seeded with --seed, no example database).
"""
import argparse, hashlib, json, math, os, signal, sys

ap = argparse.ArgumentParser()
ap.add_argument("--so-dir", required=True)
ap.add_argument("--seed", type=int, default=0)
ap.add_argument("--cases", type=int, default=1000)
ap.add_argument("--shard", type=int, default=0)
ap.add_argument("--out")
ap.add_argument("--replay")
ap.add_argument("--case-timeout", type=int, default=30)
ap.add_argument("--verbose", action="store_true")
A = ap.parse_args()

sys.path.insert(0, A.so_dir)
# Rust panic messages go to stderr: keep them out of the driver's way
if not A.verbose:
    devnull = os.open(os.devnull, os.O_WRONLY)
    os.dup2(devnull, 2)

import numpy as np  # noqa: E402
import constriction  # noqa: E402

M = constriction.stream.model
AnsCoder = constriction.stream.stack.AnsCoder
RangeEncoder = constriction.stream.queue.RangeEncoder
RangeDecoder = constriction.stream.queue.RangeDecoder

I32_MIN, I32_MAX = -(2 ** 31), 2 ** 31 - 1


class Violation(Exception):
    def __init__(self, sig, detail):
        super().__init__(sig + ": " + detail)
        self.sig, self.detail = sig, detail


LABELS = {}
STATE = {"executed": 0, "nontrivial": 0, "hashes": set(), "samples": [], "counting": True, "last_failure": None}


def label(name):
    if STATE["counting"]:
        LABELS[name] = LABELS.get(name, 0) + 1


def arr_f(values, dtype):
    return np.array(values, dtype=np.float32 if dtype == "f32" else np.float64)


def build(case):
    """Call the constructor described by `case`; returns (model, lo, hi, params) or raises."""
    k = case["kind"]
    fam = case.get("family", False)
    if k == "categorical":
        kw = {}
        if case["lazy"] is not None:
            kw["lazy"] = case["lazy"]
        if case["perfect"] is not None:
            kw["perfect"] = case["perfect"]
        if fam:
            rows = case["rows"]
            n = len(rows[0]) if rows else 0
            probs = np.array(rows, dtype=np.float32 if case["dtype"] == "f32" else np.float64).reshape(len(rows), n)
            return M.Categorical(**kw), 0, n - 1, (probs,)
        return M.Categorical(arr_f(case["probs"], case["dtype"]), **kw), 0, len(case["probs"]) - 1, ()
    if k == "uniform":
        if fam:
            sizes = np.array(case["sizes"], dtype=np.int32)
            return M.Uniform(), 0, min(case["sizes"]) - 1, (sizes,)
        return M.Uniform(case["size"]), 0, case["size"] - 1, ()
    if k in ("gaussian", "laplace", "cauchy"):
        cls = {"gaussian": M.QuantizedGaussian, "laplace": M.QuantizedLaplace, "cauchy": M.QuantizedCauchy}[k]
        lo, hi = case["lo"], case["hi"]
        if fam:
            n = len(case["a"])
            a = np.array(case["a"], dtype=np.float64)
            # the second array may deliberately be longer or shorter than the first (must then be refused, or work)
            nb = max(0, n + case.get("b_len_delta", 0))
            b = np.array((case["b"] + [1.0] * 8)[:nb], dtype=np.float64)
            variant = case.get("variant", 1)
            if variant == 2:  # location fixed by the constructor, scales delayed
                return cls(lo, hi, case["a0"], None), lo, hi, (b,)
            if variant == 3:  # scale fixed by the constructor, locations delayed
                return cls(lo, hi, None, case["b0"]), lo, hi, (a,)
            return cls(lo, hi), lo, hi, (a, b)
        return cls(lo, hi, case["a"][0], case["b"][0]), lo, hi, ()
    if k == "binomial":
        if fam:
            ps = np.array(case["ps"], dtype=np.float64)
            variant = case.get("variant", 1)
            if variant == 2:  # p fixed, n delayed
                ns = np.array(case["ns"], dtype=np.int32)
                return M.Binomial(None, case["p"]), 0, (min(case["ns"]) if case["ns"] else -1), (ns,)
            if variant == 3:  # both delayed; the two arrays may differ in length (must then be refused, or work)
                ns = np.array(case["ns"], dtype=np.int32)
                return M.Binomial(), 0, (min(case["ns"]) if case["ns"] else -1), (ns, ps)
            return M.Binomial(case["n"]), 0, case["n"], (ps,)
        return M.Binomial(case["n"], case["p"]), 0, case["n"], ()
    if k == "bernoulli":
        kw = {} if case["perfect"] is None else {"perfect": case["perfect"]}
        if fam:
            return M.Bernoulli(**kw), 0, 1, (np.array(case["ps"], dtype=np.float64),)
        return M.Bernoulli(case["p"], **kw), 0, 1, ()
    if k == "custom":
        lo, hi = case["lo"], case["hi"]
        if fam:
            # logistic location-scale family through user callbacks with two delayed parameters
            def cdf(x, loc, scale):
                return 1.0 / (1.0 + math.exp(-max(-700.0, min(700.0, (x - loc) / scale))))

            def ppf(xi, loc, scale):
                return loc if case.get("ppf") == "loc" else float(case.get("ppf_const", 0.0))
            a = np.array(case["a"], dtype=np.float64)
            b = np.array((case["b"] + [1.0] * 8)[:len(case["a"])], dtype=np.float64)
            return M.CustomModel(cdf, ppf, lo, hi), lo, hi, (a, b)
        vs = case["table"]   # values of the CDF at the mid points lo - 0.5 + k, k = 0 .. hi - lo + 1

        def cdf(x):
            kk = int(round(x - (lo - 0.5)))
            v = vs[max(0, min(len(vs) - 1, kk))]
            if v == "raise":
                raise RuntimeError("user callback fails")
            if v == "str":
                return "not a number"
            return v

        def ppf(xi):
            mode = case.get("ppf", "true")
            if mode == "true":
                for kk, v in enumerate(vs):
                    if isinstance(v, float) and v >= xi:
                        return lo - 0.5 + kk
                return hi + 0.5
            if mode == "raise":
                raise RuntimeError("user callback fails")
            return float(case.get("ppf_const", 0.0))
        return M.CustomModel(cdf, ppf, lo, hi), lo, hi, ()
    if k == "scipy":
        import scipy.stats as ss
        lo, hi = case["lo"], case["hi"]
        dist = {"norm": ss.norm, "cauchy": ss.cauchy, "laplace": ss.laplace, "logistic": ss.logistic}[case["dist"]]
        if fam:
            a = np.array(case["a"], dtype=np.float64)
            b = np.array((case["b"] + [1.0] * 8)[:len(case["a"])], dtype=np.float64)
            return M.ScipyModel(dist, lo, hi), lo, hi, (a, b)
        return M.ScipyModel(dist(case["a"][0], case["b"][0]), lo, hi), lo, hi, ()
    raise AssertionError("unknown kind " + k)


def clean_failure(e):
    """Any Python exception (ValueError, TypeError, OverflowError, pyo3 PanicException ...) is a clean failure."""
    return isinstance(e, BaseException) and not isinstance(e, (KeyboardInterrupt, SystemExit, MemoryError, Violation))


def pick_symbols(case, lo, hi, n):
    span = hi - lo
    offs = [int(o) % (span + 1) for o in case.get("offs", [])][: max(0, n - 2)]
    return [lo, hi] + [lo + o for o in offs]


def run_case(case):
    """Executes one case; raises Violation when the oracle fails."""
    kind = case["kind"] + ("_family" if case.get("family") else "")
    label("kind:" + kind)
    try:
        model, lo, hi, params = build(case)
    except BaseException as e:  # noqa: BLE001
        if not clean_failure(e):
            raise
        label("rejected:" + type(e).__name__)
        if case.get("expect_valid"):
            label("rejected_valid_input:" + kind)
        return
    label("constructed:" + kind)
    fam = case.get("family", False)
    if case.get("hostile_callbacks"):
        # CustomModel cannot look at its callbacks before they are used: a CDF that is not nondecreasing within [0, 1]
        # is garbage in. Every call must return or raise an ordinary exception (a killed interpreter or a call that
        # does not return is caught by the driver); results are not judged.
        syms = np.array(pick_symbols(case, lo, hi, 6), dtype=np.int32)
        for action in (lambda: AnsCoder().encode_reverse(syms, model), lambda: AnsCoder(np.array([w & 0xFFFFFFFF for w in case.get("words", [])] + [1], dtype=np.uint32)).decode(model, 6),
                       lambda: RangeEncoder().encode(syms, model), lambda: RangeDecoder(np.array([w & 0xFFFFFFFF for w in case.get("words", [])] + [7], dtype=np.uint32)).decode(model, 6),
                       lambda: constriction.stream.chain.ChainCoder(np.array([w & 0xFFFFFFFF for w in case.get("words", [])] + [1, 2, 3], dtype=np.uint32), False, True).decode(model, 3)):
            try:
                action()
                label("hostile_callbacks:returned")
            except BaseException as e:  # noqa: BLE001
                if not clean_failure(e):
                    raise
                label("hostile_callbacks:" + type(e).__name__)
        label("exercised:" + kind)
        return
    nparam = len(params[0]) if fam else None
    if fam and nparam == 0:
        return
    if hi < lo:
        # the constructor accepted an empty support: every use must fail cleanly
        syms = np.array([lo] * (nparam or 1), dtype=np.int32)
        try:
            c = AnsCoder()
            c.encode_reverse(syms, model, *params)
        except BaseException as e:  # noqa: BLE001
            if not clean_failure(e):
                raise
            label("empty_support_use_rejected")
            return
        raise Violation("C19/py/%s/empty_support_accepted" % kind, "support %d..%d: a symbol was encoded" % (lo, hi))
    # ---- symbols to try ---------------------------------------------------------------------
    n = nparam if fam else min(2 + len(case.get("offs", [])), 24)
    chosen = pick_symbols(case, lo, hi, n)
    while len(chosen) < n:
        chosen.append(chosen[len(chosen) % 2])
    chosen = chosen[:n]
    syms = np.array(chosen, dtype=np.int32)
    # ---- ANS round trip -----------------------------------------------------------------------
    c = AnsCoder()
    try:
        c.encode_reverse(syms, model, *params)
    except BaseException as e:  # noqa: BLE001
        if not clean_failure(e):
            raise
        if fam:
            # parameters arrive here for a family: this IS the constructor call
            label("rejected_at_first_use:" + type(e).__name__)
            if case.get("expect_valid"):
                label("rejected_valid_input:" + kind)
            return
        raise Violation("C19/py/%s/support_symbol_not_encodable" % kind,
                        "model accepted by the constructor, but encoding support symbols %s failed: %s %s" % (chosen, type(e).__name__, str(e)[:200]))
    if hi == lo:
        raise Violation("C19/py/%s/single_symbol_model_accepted" % kind, "support %d..%d was accepted and encodes" % (lo, hi))
    try:
        got = c.decode(model, *params) if fam else c.decode(model, n)
    except BaseException as e:  # noqa: BLE001
        if not clean_failure(e):
            raise
        raise Violation("C19/py/%s/decode_failed_after_encode" % kind, "%s %s" % (type(e).__name__, str(e)[:200]))
    got = [int(x) for x in np.atleast_1d(got)]
    if got != chosen:
        raise Violation("C19/py/%s/ans_roundtrip_mismatch" % kind, "encoded %s decoded %s" % (chosen, got))
    if not c.is_empty():
        raise Violation("C19/py/%s/ans_not_empty_after_roundtrip" % kind, "words left: %s" % list(c.get_compressed()))
    # ---- further rounds with other symbols of the support (deterministic functions of the case): symbols near
    # the location parameter, where a real message would be, and a spread over the support
    span = hi - lo
    offs_l = [int(o) for o in case.get("offs", [])] or [0]
    for rnd in range(1, 4):
        other = []
        for i in range(n):
            if rnd == 1 and case["kind"] in ("gaussian", "laplace", "cauchy"):
                loc = case["a0"] if (fam and case.get("variant", 1) == 2) else (case["a"][i] if i < len(case["a"]) else case["a"][0])
                centre = int(round(loc)) if isinstance(loc, float) and math.isfinite(loc) and abs(loc) < 1e9 else lo
                sym = min(hi, max(lo, centre + (i % 5) - 2))
            else:
                sym = lo + (offs_l[(i + rnd) % len(offs_l)] + rnd * (span // 3 + 1) + i * 7) % (span + 1)
            other.append(sym)
        osyms = np.array(other, dtype=np.int32)
        c = AnsCoder()
        try:
            c.encode_reverse(osyms, model, *params)
            got = c.decode(model, *params) if fam else c.decode(model, n)
        except BaseException as e:  # noqa: BLE001
            if not clean_failure(e):
                raise
            raise Violation("C19/py/%s/support_symbol_not_encodable" % kind,
                            "model accepted by the constructor, but coding support symbols %s failed: %s %s" % (other, type(e).__name__, str(e)[:200]))
        got = [int(x) for x in np.atleast_1d(got)]
        if got != other:
            raise Violation("C19/py/%s/ans_roundtrip_mismatch" % kind, "encoded %s decoded %s" % (other, got))
    # ---- range coder round trip -------------------------------------------------------------
    try:
        e_ = RangeEncoder()
        e_.encode(syms, model, *params)
        d = RangeDecoder(e_.get_compressed())
        got = d.decode(model, *params) if fam else d.decode(model, n)
    except BaseException as e:  # noqa: BLE001
        if not clean_failure(e):
            raise
        raise Violation("C19/py/%s/range_coder_failed_on_accepted_model" % kind, "%s %s" % (type(e).__name__, str(e)[:200]))
    got = [int(x) for x in np.atleast_1d(got)]
    if got != chosen:
        raise Violation("C19/py/%s/range_roundtrip_mismatch" % kind, "encoded %s decoded %s" % (chosen, got))
    # ---- arbitrary words decode to support symbols only ------------------------------------
    words = [w & 0xFFFFFFFF for w in case.get("words", [])] + [1]
    try:
        c2 = AnsCoder(np.array(words, dtype=np.uint32))
        got = c2.decode(model, *params) if fam else c2.decode(model, 6)
    except BaseException as e:  # noqa: BLE001
        if not clean_failure(e):
            raise
        raise Violation("C19/py/%s/decoding_arbitrary_words_failed" % kind, "%s %s" % (type(e).__name__, str(e)[:200]))
    got = [int(x) for x in np.atleast_1d(got)]
    per_symbol = None
    if fam and case["kind"] == "uniform":
        per_symbol = [sz - 1 for sz in case["sizes"]]
    elif fam and case["kind"] == "binomial" and case.get("variant", 1) in (2, 3):
        per_symbol = list(case["ns"])
    if per_symbol is not None:
        # each decoded symbol is bounded by the support of its own model
        bad = [g for g, h in zip(got, per_symbol) if not (0 <= g <= h)]
    else:
        bad = [g for g in got if not (lo <= g <= hi)]
    if bad:
        raise Violation("C19/py/%s/decoded_symbol_outside_support" % kind, "decoded %s from %s; support %d..%d" % (got, words, lo, hi))
    # ---- the neighbours of the support are refused ---------------------------------------------
    if per_symbol is None:
        for bad_sym in (lo - 1, hi + 1):
            if bad_sym < I32_MIN or bad_sym > I32_MAX:
                continue
            bs = np.array([bad_sym] * n, dtype=np.int32)
            try:
                AnsCoder().encode_reverse(bs, model, *params)
            except BaseException as e:  # noqa: BLE001
                if not clean_failure(e):
                    raise
                continue
            raise Violation("C19/py/%s/symbol_outside_support_accepted" % kind, "symbol %d encoded; support %d..%d" % (bad_sym, lo, hi))
    if STATE["counting"]:
        if hi - lo >= 2:
            STATE["nontrivial"] += 1
            h = hashlib.blake2b(json.dumps(case, sort_keys=True).encode(), digest_size=8).hexdigest()
            STATE["hashes"].add(h)
            if len(STATE["samples"]) < 3:
                STATE["samples"].append(case)
        label("exercised:" + kind)


def guarded(case):
    """One property evaluation: journal the case, arm the watchdog, run."""
    if A.out:
        with open(A.out + ".current", "w") as f:
            json.dump(case, f)
    signal.alarm(A.case_timeout)
    try:
        if STATE["counting"]:
            STATE["executed"] += 1
        run_case(case)
    except Violation as v:
        STATE["counting"] = False
        STATE["last_failure"] = {"sig": v.sig, "detail": v.detail, "example": case}
        raise
    finally:
        signal.alarm(0)


if A.replay:
    case = json.load(open(A.replay))
    case = case.get("example", case)
    signal.alarm(60)
    try:
        run_case(case)
    except Violation as v:
        print("PY-VIOLATION %s :: %s" % (v.sig, v.detail))
        sys.exit(1)
    print("PY-PASS", json.dumps(LABELS))
    sys.exit(0)

# ---------------------------------------------------------------------------------------------
from hypothesis import HealthCheck, Phase, given, seed, settings  # noqa: E402
from hypothesis import strategies as st  # noqa: E402

SPECIAL = [0.0, -0.0, 1.0, -1.0, float("nan"), float("inf"), float("-inf"), 5e-324, 2.2250738585072014e-308, 1e-300,
           1e300, 1.7976931348623157e308, 0.5, 1e-10, -1e-10, 1e-45, 3.4e38, 1e-38]
hfloat = st.one_of(st.sampled_from(SPECIAL), st.floats(allow_nan=True, allow_infinity=True), st.floats(min_value=0.0, max_value=1.0),
                   st.floats(min_value=1e-6, max_value=100.0))
pos = st.floats(min_value=1e-9, max_value=10.0, allow_nan=False)
flag = st.sampled_from([None, True, False])
offs = st.lists(st.integers(min_value=0, max_value=2 ** 31 - 1), min_size=0, max_size=10)
words = st.lists(st.integers(min_value=0, max_value=2 ** 32 - 1), min_size=0, max_size=6)
hostile_i32 = st.one_of(st.integers(min_value=-3, max_value=40), st.sampled_from([I32_MIN, I32_MAX, 2 ** 24 - 1, 2 ** 24, 2 ** 24 + 1, 2 ** 16, -(2 ** 24)]),
                        st.integers(min_value=I32_MIN, max_value=I32_MAX))


@st.composite
def table(draw):
    """mostly valid tables with 0..2 hostile entries, or fully hostile ones"""
    style = draw(st.integers(0, 5))
    if style == 0:
        return draw(st.lists(hfloat, min_size=0, max_size=12)), False
    n = draw(st.one_of(st.integers(0, 3), st.integers(2, 40)))
    t = draw(st.lists(pos, min_size=n, max_size=n))
    k = draw(st.integers(0, 2)) if style <= 2 else 0
    for _ in range(k):
        if t:
            t[draw(st.integers(0, len(t) - 1))] = draw(hfloat)
    return t, (k == 0 and n >= 2)


@st.composite
def categorical_case(draw):
    fam = draw(st.booleans())
    lazy, perfect = draw(flag), draw(flag)
    dtype = draw(st.sampled_from(["f32", "f64"]))
    if fam:
        n = draw(st.integers(0, 8))
        nrows = draw(st.integers(0, 4))
        style = draw(st.integers(0, 2))
        rows = [draw(st.lists(pos if style else hfloat, min_size=n, max_size=n)) for _ in range(nrows)]
        return {"kind": "categorical", "family": True, "lazy": lazy, "perfect": perfect, "dtype": dtype, "rows": rows,
                "offs": draw(offs), "words": draw(words), "expect_valid": bool(style and n >= 2 and nrows >= 1 and not (lazy and perfect))}
    t, valid = draw(table())
    return {"kind": "categorical", "family": False, "lazy": lazy, "perfect": perfect, "dtype": dtype, "probs": t, "offs": draw(offs),
            "words": draw(words), "expect_valid": bool(valid and not (lazy and perfect))}


@st.composite
def uniform_case(draw):
    fam = draw(st.booleans())
    if fam:
        sizes = draw(st.lists(hostile_i32, min_size=0, max_size=5))
        return {"kind": "uniform", "family": True, "sizes": sizes, "offs": draw(offs), "words": draw(words),
                "expect_valid": bool(sizes) and all(2 <= s <= 2 ** 24 for s in sizes)}
    size = draw(hostile_i32)
    return {"kind": "uniform", "family": False, "size": size, "offs": draw(offs), "words": draw(words), "expect_valid": 2 <= size <= 2 ** 24}


@st.composite
def quantized_case(draw):
    kind = draw(st.sampled_from(["gaussian", "laplace", "cauchy"]))
    fam = draw(st.booleans())
    style = draw(st.integers(0, 3))
    if style == 0:
        lo, hi = draw(hostile_i32), draw(hostile_i32)
    else:
        lo = draw(st.integers(-1000, 1000))
        hi = lo + draw(st.one_of(st.integers(0, 3), st.integers(1, 5000)))
    n = draw(st.integers(0, 5)) if fam else 1
    par = hfloat if draw(st.integers(0, 2)) == 0 else st.floats(min_value=-50.0, max_value=50.0)
    spar = hfloat if draw(st.integers(0, 2)) == 0 else st.floats(min_value=1e-3, max_value=50.0)
    a = draw(st.lists(par, min_size=n, max_size=n))
    b = draw(st.lists(spar, min_size=n, max_size=n))
    case = {"kind": kind, "family": fam, "lo": lo, "hi": hi, "a": a, "b": b, "offs": draw(offs), "words": draw(words), "expect_valid": False}
    if fam:
        case["variant"] = draw(st.integers(1, 3))
        case["a0"] = draw(par)
        case["b0"] = draw(spar)
        case["b_len_delta"] = draw(st.sampled_from([0, 0, 0, 0, 0, 1, 2, -1]))
        if case["b_len_delta"] > 0:
            case["b"] = case["b"] + draw(st.lists(spar, min_size=case["b_len_delta"], max_size=case["b_len_delta"]))
    return case


INVALID_P = [float("nan"), float("inf"), float("-inf"), -1.0, 1.5, -1e-10, 1.0000000000000002, 1e300, -5e-324]


def binomial_n_limit(ps):
    """Largest n for which the `probability` crate's Binomial is known to terminate for every valid p in `ps`.

    Third-party limits, not constructors of this library (the repository's own test `leakily_quantized_binomial`
    carries the note "<Binomial as Inverse>::inverse currently doesn't terminate" for some parameters):
    `inverse` sums the mass function starting from q^n or p^n and never terminates when that power underflows
    to zero (e.g. n = 997, p = 0.43, a quantile in the upper tail); for n >= 1000 it switches to a Newton iteration
    without termination guarantee; and the cumulative distribution function needs minutes when n is large and p
    is within 1e-15 of 0 or 1. Invalid p (NaN, < 0, > 1) does not constrain n: it has to be refused whatever n is."""
    lim = 999
    for p in ps:
        if isinstance(p, float) and 0.0 < p < 1.0:
            m = min(p, 1.0 - p)
            if 0.0 < m < 1.0:
                lim = min(lim, int(300.0 / -math.log10(m)))
    return max(1, lim)


@st.composite
def binomial_case(draw):
    fam = draw(st.booleans())
    variant = draw(st.integers(1, 3)) if fam else 0
    pstrat = hfloat if draw(st.integers(0, 2)) == 0 else st.floats(min_value=0.0, max_value=1.0)
    ps = draw(st.lists(pstrat, min_size=0, max_size=5)) if fam else []
    p = draw(pstrat)
    lim = binomial_n_limit(ps + [p])
    nstrat = st.one_of(st.integers(-3, min(60, lim)), st.sampled_from([I32_MIN, -1, 0, 1, 2 ** 24, 2 ** 24 + 1, I32_MAX]), st.integers(1, lim))
    case = {"kind": "binomial", "family": fam, "n": draw(nstrat), "p": p, "offs": draw(offs), "words": draw(words)}
    if fam:
        case["variant"] = variant
        case["ps"] = ps
        if variant in (2, 3):
            case["ns"] = draw(st.lists(nstrat, min_size=0, max_size=5))
    return case


@st.composite
def bernoulli_case(draw):
    fam = draw(st.booleans())
    p = hfloat if draw(st.integers(0, 2)) == 0 else st.floats(min_value=0.0, max_value=1.0)
    if fam:
        return {"kind": "bernoulli", "family": True, "perfect": draw(flag), "ps": draw(st.lists(p, min_size=0, max_size=6)), "offs": draw(offs), "words": draw(words)}
    return {"kind": "bernoulli", "family": False, "perfect": draw(flag), "p": draw(p), "offs": draw(offs), "words": draw(words)}


@st.composite
def custom_case(draw):
    lo = draw(st.integers(-30, 10))
    hi = lo + draw(st.integers(1, 40))
    common = {"kind": "custom", "lo": lo, "hi": hi, "offs": draw(offs), "words": draw(words)}
    if draw(st.integers(0, 3)) == 0:
        n = draw(st.integers(1, 5))
        return dict(common, family=True, expect_valid=True, a=draw(st.lists(st.floats(lo - 5.0, hi + 5.0), min_size=n, max_size=n)),
                    b=draw(st.lists(st.floats(0.05, 20.0), min_size=n, max_size=n)), ppf=draw(st.sampled_from(["loc", "const"])),
                    ppf_const=draw(st.floats(-1e6, 1e6)))
    npts = hi - lo + 2
    if draw(st.booleans()):
        # a valid CDF: nondecreasing values within [0, 1] (flat stretches and jumps included)
        incs = draw(st.lists(st.one_of(st.just(0.0), st.floats(0.0, 1.0)), min_size=npts, max_size=npts))
        tot = sum(incs) or 1.0
        scale = draw(st.sampled_from([1.0, 1.0, 0.5, 1e-3]))
        vs, acc = [], 0.0
        for x in incs:
            acc += x
            vs.append(min(1.0, scale * acc / tot))
        return dict(common, family=False, expect_valid=True, table=vs, ppf=draw(st.sampled_from(["true", "const"])), ppf_const=draw(st.floats(-1e6, 1e6)))
    hv = st.one_of(st.floats(0.0, 1.0), st.sampled_from([float("nan"), float("inf"), float("-inf"), -0.5, 1.5, 2.0, -1e300, 1e300, "raise", "str"]))
    return dict(common, family=False, hostile_callbacks=True, table=draw(st.lists(hv, min_size=npts, max_size=npts)),
                ppf=draw(st.sampled_from(["true", "const", "raise"])), ppf_const=draw(st.one_of(st.floats(-1e6, 1e6), st.sampled_from([float("nan"), float("inf"), -1e300]))))


@st.composite
def scipy_case(draw):
    lo = draw(st.integers(-30, 10))
    hi = lo + draw(st.integers(1, 40))
    n = draw(st.integers(1, 4))
    return {"kind": "scipy", "family": draw(st.booleans()), "expect_valid": True, "dist": draw(st.sampled_from(["norm", "cauchy", "laplace", "logistic"])), "lo": lo, "hi": hi,
            "a": draw(st.lists(st.floats(lo - 5.0, hi + 5.0), min_size=n, max_size=n)), "b": draw(st.lists(st.floats(0.05, 20.0), min_size=n, max_size=n)),
            "offs": draw(offs), "words": draw(words)}


STRATS = [("custom", custom_case(), 2), ("scipy", scipy_case(), 1), ("categorical", categorical_case(), 4), ("uniform", uniform_case(), 1), ("quantized", quantized_case(), 3),
          ("binomial", binomial_case(), 1), ("bernoulli", bernoulli_case(), 1)]

failures = []
total_w = sum(w for _, _, w in STRATS)
for idx, (name, strat, w) in enumerate(STRATS):
    n_examples = max(1, A.cases * w // total_w)
    STATE["counting"] = True
    STATE["last_failure"] = None

    @seed(A.seed * 1000003 + A.shard * 101 + idx)
    @settings(max_examples=n_examples, database=None, deadline=None, derandomize=False, suppress_health_check=list(HealthCheck),
              phases=(Phase.generate, Phase.shrink), report_multiple_bugs=False, print_blob=False)
    @given(strat)
    def prop(case):
        guarded(case)

    try:
        prop()
    except Violation:
        failures.append(STATE["last_failure"])
    except BaseException as e:  # noqa: BLE001  (an unexpected exception escaping run_case is a harness bug)
        if STATE["last_failure"] is not None:
            failures.append(STATE["last_failure"])
        else:
            failures.append({"sig": "harness/py_exception", "detail": "%s: %s" % (type(e).__name__, str(e)[:300]), "example": None})

res = {"executed": STATE["executed"], "nontrivial": STATE["nontrivial"], "hashes": sorted(STATE["hashes"]), "labels": LABELS,
       "samples": STATE["samples"], "failures": failures}
with open(A.out, "w") as f:
    json.dump(res, f)
try:
    os.remove(A.out + ".current")
except FileNotFoundError:
    pass
