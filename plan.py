"""The plan: which harness targets decide which property, and with how many cases.

quick    = fixed work you would run on every change (seconds to a minute on 16 cores)
thorough = much deeper, larger structures (ctx.tier = 1, longer cases)

`param` is handed to the target as ctx.param; shared interpreters use it to select the
oracle of the property being checked, so a violation is always attributed to the property
whose statement it contradicts.
"""


def item(bin, target, quick, thorough, param=0, max_len=None, ubonly=False, fuzz_runs=None):
    d = {"bin": bin, "target": target, "quick": quick, "thorough": thorough, "param": param}
    # thorough tier: total number of libFuzzer (ASan) executions for this item, split over the cores
    d["fuzz_runs"] = 4_000_000 if fuzz_runs is None else fuzz_runs
    if ubonly:
        d["ubonly"] = True  # C20 mode: only the memory-safety / wrap-arithmetic class of panics counts
    if max_len:
        d["max_len"] = max_len  # (quick, thorough) maximum case length in bytes
    return d


PLAN = {
    "C01": [item("h_stream", "c01_ans", 12_800_000, 96_000_000, max_len=(1024, 4096))],
    "C02": [item("h_stream", "range_msg", 9_600_000, 64_000_000, param=2, max_len=(1024, 16384))],
    "C04": [item("h_stream", "c04_bitsback", 12_800_000, 96_000_000, max_len=(1024, 8192))],
    "C06": [
        item("h_stream", "ans_msg", 6_400_000, 48_000_000, param=6, max_len=(1024, 16384)),
        item("h_stream", "range_msg", 6_400_000, 48_000_000, param=6, max_len=(1024, 16384)),
        item("h_model", "c06_golden", 2, 2, fuzz_runs=0),  # byte-exact vectors from the project's documentation (case bytes ignored)
    ],
    "C07": [
        item("h_stream", "c07_range", 6_400_000, 48_000_000, max_len=(1024, 8192)),
        item("h_stream", "c07_ans", 6_400_000, 48_000_000, max_len=(1024, 8192)),
    ],
    "C08": [
        item("h_stream", "c08_ans", 6_400_000, 48_000_000, max_len=(1024, 8192)),
        item("h_stream", "c08_range", 6_400_000, 48_000_000, max_len=(1024, 8192)),
        item("h_symbol", "c16_bits", 3_200_000, 24_000_000, param=8, max_len=(1024, 8192)),
        # temporary views on bounded sinks (forward / reversed cursors that are nearly full; the view may be refused)
        item("h_model", "c09_impossible", 3_200_000, 24_000_000, param=8, max_len=(2048, 16384)),
    ],
    "C11": [item("h_stream", "c11_suffix", 6_400_000, 64_000_000, max_len=(2048, 2048))],
    "C12": [
        item("h_stream", "ans_msg", 1_600_000, 32_000_000, param=12, max_len=(1024, 16384)),
        item("h_stream", "range_msg", 1_600_000, 32_000_000, param=12, max_len=(1024, 16384)),
    ],
    "C13": [item("h_chain", "c13_chain", 9_600_000, 64_000_000, max_len=(1024, 8192))],
    "C14": [item("h_chain", "c14_chain", 9_600_000, 64_000_000, max_len=(1024, 8192))],
    "C15": [item("h_symbol", "c15_huffman", 3_200_000, 24_000_000, max_len=(2048, 16384))],
    "C16": [item("h_symbol", "c16_bits", 9_600_000, 64_000_000, param=16, max_len=(1024, 8192)),
            # batch forms of the bit-level coders == the per-symbol loop
            item("h_symbol", "c16_batch", 1_600_000, 32_000_000, max_len=(512, 2048), fuzz_runs=400_000)],
    "C17": [item("h_symbol", "c17_backends", 9_600_000, 64_000_000, max_len=(1024, 8192))],
    "C18": [
        item("h_stream", "ans_sizes", 1_200_000, 32_000_000, max_len=(1024, 8192)),
        item("h_stream", "range_msg", 1_200_000, 32_000_000, param=18, max_len=(1024, 16384)),
        item("h_symbol", "c16_bits", 800_000, 24_000_000, param=18, max_len=(1024, 8192)),
        item("h_model", "categorical", 200_000, 4_000_000, param=18, max_len=(2048, 16384), fuzz_runs=800_000),
        item("h_model", "leaky", 24_000, 500_000, param=18, max_len=(2048, 4096), fuzz_runs=160_000),
    ],
    "C03": [
        item("h_model", "categorical", 400_000, 8_000_000, param=3, max_len=(2048, 16384), fuzz_runs=800_000),
        item("h_model", "leaky", 48_000, 1_000_000, param=3, max_len=(2048, 4096), fuzz_runs=160_000),
    ],
    "C05": [
        item("h_model", "categorical", 300_000, 4_000_000, param=5, max_len=(2048, 16384), fuzz_runs=800_000),
        item("h_model", "leaky", 32_000, 750_000, param=5, max_len=(2048, 4096), fuzz_runs=160_000),
    ],
    "C19": [
        item("h_model", "categorical", 600_000, 12_000_000, param=19, max_len=(2048, 16384), fuzz_runs=800_000),
        item("h_model", "leaky", 48_000, 1_000_000, param=19, max_len=(2048, 4096), fuzz_runs=160_000),
    ],
    "C10": [
        item("h_model", "c10_decode", 6_400_000, 48_000_000, max_len=(2048, 16384)),
        # chain coder over arbitrary data with change_precision between symbols (C10 oracle only)
        item("h_chain", "c13_chain", 2_400_000, 16_000_000, param=10, max_len=(1024, 8192)),
    ],
    "C09": [item("h_model", "c09_impossible", 6_400_000, 48_000_000, max_len=(2048, 16384))],
    "C20": [
        item("h_model", "c20_unsafe", 1_600_000, 64_000_000, max_len=(1024, 4096)),
        # safe traits implemented by the user (IterableEntropyModel with an arbitrary table, Distribution + Inverse with an arbitrary CDF)
        item("h_model", "c20_user_impls", 800_000, 32_000_000, max_len=(512, 1024), fuzz_runs=400_000),
        item("h_model", "categorical", 400_000, 16_000_000, param=19, max_len=(2048, 16384), ubonly=True, fuzz_runs=800_000),
        # valid inputs: every constructor, conversion, view and accessor of C03's explorer under the UB-only oracle
        item("h_model", "categorical", 200_000, 8_000_000, param=3, max_len=(2048, 16384), ubonly=True, fuzz_runs=400_000),
        item("h_model", "leaky", 16_000, 750_000, param=3, max_len=(2048, 4096), ubonly=True, fuzz_runs=80_000),
        item("h_model", "leaky", 32_000, 1_500_000, param=19, max_len=(2048, 4096), ubonly=True, fuzz_runs=160_000),
        item("h_model", "c10_decode", 800_000, 24_000_000, max_len=(2048, 16384), ubonly=True),
        item("h_model", "c09_impossible", 400_000, 16_000_000, max_len=(2048, 16384), ubonly=True),
        item("h_symbol", "c17_backends", 400_000, 16_000_000, max_len=(1024, 8192), ubonly=True),
        item("h_symbol", "c15_huffman", 200_000, 8_000_000, max_len=(2048, 16384), ubonly=True),
        item("h_symbol", "c16_bits", 400_000, 16_000_000, param=16, max_len=(1024, 8192), ubonly=True),
        item("h_chain", "c13_chain", 400_000, 16_000_000, max_len=(1024, 8192), ubonly=True),
        item("h_stream", "c01_ans", 400_000, 16_000_000, max_len=(1024, 4096), ubonly=True),
        item("h_stream", "range_msg", 400_000, 16_000_000, param=2, max_len=(1024, 16384), ubonly=True),
        item("h_stream", "c04_bitsback", 400_000, 16_000_000, max_len=(1024, 8192), ubonly=True),
        item("h_stream", "c11_suffix", 200_000, 8_000_000, max_len=(2048, 2048), ubonly=True),
    ],
}

CHAIN_GRID = ("chain-coder grid (Word/State: precisions, switchable by change_precision): u8/u16: 8,3,1,7; u8/u32: 8,5,1; u8/u64: 8,4; "
              "u16/u32: 16,12,7,15; u16/u64: 16,8,11; u32/u64: 32,24,12,8,31; u32/u128: 32,9; u64/u128: 24,2; harness table models")

GRID = ("configuration grid (Word/State: precisions): u8/u16: 1,3,8; u8/u32: 1,5,8; u8/u64: 8,4; u16/u32: 7,12,16,15; "
        "u16/u64: 8,16,11; u32/u64: 8,12,16,24,32,31; u32/u128: 32,9; u64/u128: 24,2; models are harness cumulative "
        "tables with 2..8 symbols incl. 1-quantum and (2^P-1)-quantum symbols, precision changing per symbol")

RULES = {
    "C01": "case = byte string decoded into (config row, start state {new, from_compressed(words), from_binary(words)}, "
           "<=60 ops (quick) / <=200 (thorough) from {encode, decode, 6 batch-encode forms with injected iterator errors, "
           "3 batch-decode forms, 3 re-imports, 8 read-only decoder views over other backends, clone}); " + GRID +
           "; non-trivial = at least one push popped again after a word was flushed to bulk or after a re-import; "
           "distinct = distinct canonical hash of the decoded choices",
    "C02": "case = (config row, encoder constructor, message of <=80 (quick) / <=2000 (thorough) symbols with per-symbol "
           "table, one of 8 decoder constructions; optionally one clear() at a generated symbol boundary, after which the message starts afresh); " + GRID + "; non-trivial = message with >=1 renormalisation "
           "(word emitted or held back); labels count inverted situations, carries resolved up/down, seals while inverted",
    "C04": "case = (config row, word data 0..24 words (quick) / 0..200 (thorough) from a mixture incl. all-zero, all-ones, "
           "trailing zero words, number of decodes 0..40 / 0..400 with arbitrary tables, optional interleaved push/pop, "
           "alternative constructor/backend); " + GRID + "; non-trivial = >=1 symbol decoded and >=1 refill from bulk",
    "C06": "case = (config row, message of <=80 / <=2000 symbols with per-symbol table); ANS: export compared with the "
           "reference rANS coder after every prefix and after popping a generated part of the message again; range coder: "
           "sealed stream compared with the carry-propagating reference at a generated prefix and at the end; plus golden "
           "vectors from the project's documentation in the replay tier; " + GRID +
           "; non-trivial = >=1 flushed word (ANS) / >=1 renormalisation (range)",
    "C07": "case = (config row, decoder kind, seek script of 1..12 steps {seek to a generated snapshot (preferring snapshots taken "
           "while words were held back) then decode 0..23 symbols; seek to the final position; seek beyond the data}, message of "
           "<=60 / <=600 symbols with a snapshot at every symbol boundary); range decoders over owned buffer, borrowed slice and the "
           "encoder's temporary decoder; ANS decoders from as_seekable_decoder, into_seekable_decoder, reversed data with mirrored "
           "positions, and the truncating Vec backend; " + GRID + "; non-trivial = script contains a seek to an inner snapshot followed "
           "by at least one decode",
    "C08": "case = twin histories: the same encodes (<=40 / <=400 symbols) applied to coder A with inspections inserted at generated "
           "points and to an untouched twin B; ANS inspections: get_compressed (once/twice), get_binary (Ok and Err), iter_compressed, "
           "as_decoder, as_seekable_decoder, clone, pos/state, sizes, starting from new/from_compressed/from_binary; range-encoder "
           "inspections: get_compressed (once/twice), decoder() decoding 3 or all symbols, clone, pos/state, sizes; bit-level stack/queue "
           "coders: see C16 interpreter; " + GRID + "; ANS coders over bounded cursors (forward / reversed, nearly full, State of 2 and 4 words): get_compressed() views that are obtained or refused for lack of space must leave the pending symbols decodable (histories of C09, judged for views only); non-trivial = an inspection in a delicate state (range encoder inverted or with "
           ">=2 seal words, ANS directly after a flush or with non-empty bulk, empty coder)",
    "C11": "case = up to 48 short messages per case (0..6 random symbols + a final symbol that is steered, with probability 3/4, "
           "from the encoder's public state() so that range lands just above 2^(S-W) and lower just above a word boundary), each "
           "followed by a suffix from {all-ones words, zeros, random words, a second sealed message written with with_backend(existing)}; "
           + GRID + "; non-trivial = case containing a message whose seal needs its zero word(s) (top words of upper and point coincide); "
           "label deep_region counts final states in which one zero word is not enough (State wider than two Words)",
    "C12": "case = (config row, message of <=80 / <=2000 symbols), bound W*num_words <= sum(I_i + log2(1+2^-(S-W-P_i))) + S + 2W "
           "and num_words <= n + S/W + 2 checked at every prefix for both coders (float slack 1e-9*n + 1e-6 bits); the occupied size is taken from num_words(), from num_bits(), or (range coder) counted on the get_compressed() view of the live encoder; " + GRID +
           "; non-trivial = >=1 flushed word / renormalisation",
    "C13": "case = (config row, from_binary | from_compressed (last word forced non-zero), word data 0..24(+S/W) words (quick) / 0..200 "
           "(thorough), script of <=40 / <=400 steps from {decode(model), change_precision(P')}, decoding past the end of the data "
           "continues with the symbols obtained, one of the three documented re-import ways {same coder; into_remainders -> prefix++suffix "
           "-> from_remainders; suffix only, prefix kept apart}, re-encode in reverse with precision changes undone, optional extra "
           "encode (must give OutOfRemainders or be undone by a decode), into_binary | into_compressed); " + CHAIN_GRID +
           "; non-trivial = >=2 symbols decoded and re-encoded",
    "C14": "case = (config row, constructor, word data, up to 40 / 400 models, position j + replacement model, position j + bit mask); "
           "oracle 1: symbol i == model_i(chunk_i) with chunk_i and the out-of-data index from an independent bit-stack model of the "
           "chunking; oracle 2: replacing model j / flipping the mask inside chunk j (bit provenance from the chunk model) changes at most "
           "symbol j and never the out-of-data index; oracle 3: a coder over a seekable compressed backend (Cursor) is jumped back "
           "(Pos / Seek) up to 4 times to snapshots taken before earlier symbols and must decode what the straight pass decoded there; " + CHAIN_GRID + "; non-trivial = >=2 symbols decoded",
    "C15": "case = (weight type u8|u32|u64|f32|f64, n in 1..40 (quick) / 1..600 (thorough), style {ties and zeros, powers of two, "
           "Fibonacci-like, nearly equal, one dominant, random}, float tables scaled exactly by 2^k (k down to -1000) or perturbed by one "
           "epsilon); checks: prefix-free, Kraft equality, codewords bit-identical to a textbook construction with the documented tie "
           "rule, optimum found by exhaustive enumeration of all complete length profiles for n <= 9 (exact weights), prefix == reversed "
           "suffix, decoder tree decodes every codeword and consumes exactly its length, truncated codewords and out-of-alphabet symbols "
           "rejected, NaN rejected; non-trivial = n >= 3",
    "C16": "case = (word type u8|u16|u32|u64|usize, stack or queue coder, script of <=80 / <=600 ops over {write 1..12 bits, read_bit, "
           "encode_symbol / decode_symbol with Exp-Golomb<u8|u16|u32|u64> (values from {0,1,MAX-1,MAX,2^k-1,2^k,random}) or a generated "
           "Huffman codebook, len/is_empty, get_compressed guard, into_compressed -> from_compressed (stack), iter, into_decoder, "
           "queue: QueueDecoder over the export reading bits or symbols, into_decoder, into_overshooting_iter}); oracle = Vec<bool> with "
           "symbol marks, independent Exp-Golomb codeword construction, exports compared with the little-endian packing of the bits "
           "(+terminating 1 for the stack, zero padding for the queue); non-trivial = >= 2 words of bits, or a re-import with a set data "
           "bit below the terminator",
    "C17": "case = (backend kind: Cursor over Vec | Box<[_]> | &[_] | &mut [_], Reverse<Cursor> over Vec | Box<[_]> | &mut [_] built from "
           "reversed data, growing stacks Vec | SmallVec<[_;2]>, iterator adapter over a non-fused iterator with injected errors, callback "
           "writers; buffer of 0..8 words, start position anywhere; script of <=60 / <=400 ops over {read<Stack>, read<Queue>, write, "
           "extend_from_iter, seek (valid / to pos() / out of range), pos + buf, remaining / is_exhausted / maybe_exhausted / space_left / "
           "is_full / maybe_full compared with the model AND with the number of reads / writes that actually succeed on a clone, "
           "into_reversed (any number of times), reads through as_view() / cloned(), reads after end of data}); the reference is one "
           "logical cursor (buf, pos) whose physical pos/buf are mirrored by each reversal; non-trivial = script of >= 5 ops",
    "C18": "sizes: ANS push/pop histories (start new | from_compressed | from_binary) probed after every step: num_words / num_bits / "
           "is_empty vs the export of a clone, num_valid_bits vs the payload bits of the export (and vs the data size after from_binary), "
           "maybe_exhausted vs emptiness / whole words in bulk; range encoder probed after every symbol (also while words are held back), "
           "range decoder stopped after a generated number of symbols (exhausted at the end, not exhausted with whole words unread); "
           "bit-level stack / queue coders: len / is_empty vs the bit model, queue decoder exhaustion; model diagnostics: see the "
           "c18_diag target; " + GRID + "; non-trivial = probe with non-empty bulk (ANS) / >= 1 renormalisation (range) / >= 2 words of bits",
    "C03": "case = (probability type / precision from {u8/3, u8/8, u16/12, u16/16, u32/24, u32/32}, model family) with VALID inputs only; "
           "families: uniform (every range for small P, edge-biased beyond), contiguous categorical _fast / _perfect (f32 and f64 tables of "
           "2..64 (quick) / ..600 entries, plus the longest accepted length and 2^P entries; shapes: integers, zeros in every position, "
           "denormals, one dominant entry with a tail up to 320 decades smaller, near-equal, huge values; optional exact user-supplied "
           "normalization), lazy _fast, non-contiguous encoder + decoder (_fast, _perfect) over arbitrary distinct i32 symbols, lookup "
           "decoders (u8/u16 probability types), fixed-point tables (random compositions of 2^P, with and without infer_last_probability), "
           "quantised distributions (see leaky target); oracle = validity predicate: consecutive non-empty intervals from 0 to exactly 2^P, "
           ">= 2 symbols, no probability 2^P, symbols outside the support (incl. values aliasing after narrowing) impossible, "
           "quantile_function(q) == encoder triple for ALL quantiles when 2^P <= 4096 (quick) / 65536 (thorough), else interval ends +-1 "
           "and generated quantiles; non-trivial = model with >= 3 symbols",
    "C05": "case = a valid model as in C03; every reachable representation is reduced to its list of (symbol, left cumulative, probability) "
           "and compared with the encoder view: symbol_table, floating_point_symbol_table (exact after scaling), as_view, &model, "
           "to_generic_encoder_model, to_generic_decoder_model (+ its quantile_function), lazy vs eager _fast on the same table (f32 and "
           "f64), contiguous vs non-contiguous encoder/decoder with identity relabelling (_fast with _fast, _perfect with _perfect), lookup "
           "_fast/_perfect vs searched, lookup as_view / as_contiguous_categorical / as_non_contiguous_categorical, quantised distributions "
           "(see leaky target); every conversion reachable from a contiguous model (to_lookup_decoder_model, From<&model> impls, from_iterable_entropy_model "
           "of the three generic models, to_generic_lookup_decoder_model, as_/into_contiguous_categorical, as_/into_non_contiguous_categorical, "
           "conversions of converted models); 1/8 of the cases with an explicit normalisation put it slightly above the exact sum; a panic inside "
           "a conversion, view, iterator or accessor of a validated model is a violation; non-trivial = >= 2 representations compared on a "
           "model with >= 3 symbols",
    "C19": "case = as C03 but with HOSTILE inputs: float tables of any length with negative, tiny negative, NaN, +-inf, -0, denormal, huge "
           "entries and arbitrary user normalization; fixed-point tables with zeros, oversized entries, sums below / above 2^P, one or two "
           "laps at P == bits, a single entry, empty, with and without infer_last_probability; symbol lists shorter / longer than the "
           "probability list or with duplicates; uniform ranges 0, 1, 2^P, 2^P+1, usize::MAX; quantiser supports (see leaky target); "
           "oracle: Err or panic accepted, Ok(model) must satisfy the C03 predicate; a valid partial table with infer_last_probability "
           "must be accepted at every precision; non-trivial = a constructor returned a model with >= 3 symbols",
    "C10": "case = (decoder from {ANS over Vec (from_binary / from_compressed), Cursor over slice, reversed Cursor, iterator backend with an "
           "injected read error; range decoder over Vec / slice / iterator backend with injected error; chain coder from_binary / "
           "from_compressed}, 0..200 (quick) / 0..2000 decodes, word data 0..24 / 0..200 words from {random, all-zero, all-ones, single bits, a "
           "valid stream of in-support symbols that is truncated / extended / bit-flipped}, 1..3 valid models used round-robin from the zoo "
           "{harness tables, uniform, contiguous _fast/_perfect/fixed-point, lazy f32/f64, non-contiguous, contiguous and non-contiguous "
           "lookup decoders, leakily quantised distributions over i32 symbols with arbitrary inverse hints}); configs (PRECISION/Word/State): "
           "8/u16/u32, 8/u8/u16, 12/u16/u32, 16/u16/u32, 12/u32/u64, 24/u32/u64, 32/u32/u64; non-trivial = >= 3 symbols decoded from >= 2 words; "
           "second target: chain-coder histories of C13 (arbitrary words, harness tables, change_precision between symbols over the chain grid) judged by the C10 oracle only; non-trivial = >= 2 decodes and >= 1 precision change",
    "C09": "case = (coder from {ANS over Vec, range encoder, chain coder, ANS over a bounded Cursor of 0..7 words that fills up (forward, or reversed in place so that writes run towards index 0; temporary get_compressed() views are taken on it, which may fail for lack of space), ANS over a "
           "sink that fails exactly the j-th write, bit-level stack / queue coder with a generated Huffman codebook}, 1..3 valid models with "
           "an encoder view from the zoo used round-robin, encode history of 0..40 (quick) / 0..400 symbols in which each position is, with a "
           "generated rate, a BAD encode of a symbol outside the model's support: neighbours of the support, type extremes, values congruent "
           "to an in-support symbol modulo 2^8 / 2^16 / 2^32 / 2^ProbabilityBits); oracle: impossible-symbol error, exported state identical "
           "before and after, the valid history decodes afterwards; after a backend write failure everything encoded before decodes and "
           "encoding continues after a pop; configs as C10; non-trivial = history with >= 1 bad and >= 1 valid encode, or >= 1 failed write",
    "C20": "the explorers of C01, C02, C04, C09, C10, C11, C13, C15, C16, C17 and the hostile-input explorers of C19 re-run in UB-only mode "
           "(their own oracles are ignored; only panics of the memory-safety / wrap-arithmetic class count: std unsafe-precondition checks "
           "for get_unchecked / NonZero::new_unchecked / unreachable_unchecked, arithmetic and shift overflow checks, death by signal), plus "
           "C20-specific scripts: Cursor::buf_mut() followed by clear / truncate / push / replace and then reads, writes, size queries and "
           "seeks through Cursor and Reverse<Cursor> and an ANS coder on top; AnsCoder / RangeEncoder / RangeDecoder::from_raw_parts and "
           "seek with arbitrary values followed by encodes / decodes; quantile_function with arbitrary (out-of-range) quantiles and "
           "left_cumulative_and_probability with arbitrary symbols on every zoo model; hostile constructor inputs followed by queries and "
           "every conversion path (to_lookup_decoder_model, to_generic_*); Huffman trees from hostile weights, arbitrary symbols, garbage "
           "bits; non-trivial = every executed script (the oracle is process-level)",
}

LEVEL_TEXT = {
    "C01": "stateful property-based search over ANS operation histories against a stack-of-pending-pushes model and recorded exports",
    "C02": "property-based round-trip search over range-coder messages (all carry situations reached thousands of times per run)",
    "C04": "property-based decode-then-re-encode search on arbitrary raw binary data through five constructors",
    "C06": "differential search against independent reference rANS and carry-propagating range coders, plus golden vectors from the documentation",
    "C07": "stateful property-based search over seek scripts against the recorded message (snapshot k must resume at symbol k)",
    "C08": "metamorphic property-based search: inspected coder vs untouched twin, and every view vs the export of a clone",
    "C11": "property-based search with a state-steered generator over sealed messages followed by adversarial suffixes",
    "C12": "property-based search checking the analytic size bound at every prefix of generated messages",
    "C13": "stateful property-based decode/re-encode round-trip search over chain-coder scripts with precision changes and all three re-import ways",
    "C14": "differential (independent chunk model) and metamorphic (model replacement, bit flips, seek-back re-decoding) property-based search",
    "C15": "property-based search over weight vectors with a reference construction, exhaustive-optimum oracle for small alphabets and validity predicates",
    "C16": "stateful model-based property-based search over bit-coder scripts against a Vec<bool> model and the documented word packing",
    "C17": "stateful model-based property-based search over backend op scripts against a logical-cursor reference model",
    "C18": "stateful property-based search probing every size / emptiness / exhaustion query against the export of a clone at every step",
    "C03": "property-based search over valid model inputs with a two-directional validity predicate (encoder view tiles [0,2^P); decoder view inverts it on all / sampled quantiles)",
    "C05": "differential property-based search: every representation of a generated model reduced to its triple list and compared with the encoder view",
    "C19": "property-based search with hostile constructor inputs; accepted models must pass the C03 predicate; plus a Hypothesis-driven search over the Python model constructors (behavioural C03 oracle through the coders)",
    "C10": "robustness property-based search (fuzz-style): any words, any valid models, all decoders; oracle = no panic / termination / symbol in support / only documented errors",
    "C09": "stateful property-based search with fault injection (out-of-support symbols, bounded and failing sinks) against the recorded valid history",
    "C20": "fuzz-style property-based search over safe-API call sequences in a checked build (debug assertions + overflow checks make std's unsafe-precondition violations and wrap-dependent arithmetic visible); libFuzzer + AddressSanitizer in the thorough tier",
}

TECHNIQUE = {
    "C01": "stateful property-based testing (generated operation histories vs reference stack model), byte-level shrinking to a replay file",
    "C02": "property-based round-trip testing over generated messages and decoder constructions",
    "C04": "property-based inverse round-trip (decode then re-encode) on generated raw data, differential across backends",
    "C06": "differential property-based testing against reference coders + golden-vector replay",
    "C07": "stateful property-based testing (generated seek/decode scripts vs recorded message)",
    "C08": "metamorphic property-based testing (inspected vs uninspected twin histories)",
    "C11": "property-based testing with state-feedback (steered) generation; oracle = decode(sealed ++ suffix) == message",
    "C12": "property-based testing of an analytic invariant over every prefix of generated messages",
    "C13": "stateful property-based round-trip testing (decode script -> export/re-import -> reverse re-encode)",
    "C14": "differential + metamorphic property-based testing against an independent chunk model",
    "C15": "property-based testing with reference model (textbook Huffman + exhaustive optimum) and validity predicates",
    "C16": "stateful model-based property-based testing (op scripts vs Vec<bool> reference)",
    "C17": "stateful model-based property-based testing (op scripts vs logical-cursor model)",
    "C18": "stateful property-based testing with an invariant probe after every step (query == length of the export of a clone)",
    "C03": "property-based testing with a validity predicate over generated model inputs",
    "C05": "differential property-based testing across model representations",
    "C19": "property-based testing with hostile inputs (robustness oracle: reject cleanly or build a valid model), Rust constructors by the byte-string engine and Python constructors by Hypothesis",
    "C10": "property-based robustness testing (totality + membership oracle) over garbage and mutated valid streams",
    "C09": "stateful property-based testing with injected faults (impossible symbols, failing writes)",
    "C20": "fuzzing / property-based testing with a process-level oracle (UB checks, overflow checks, sanitizers)",
}


# Properties with an additional Hypothesis-driven search through the Python front end
# (pycheck/<script>, run with the tooling interpreter against a module built from /repo's tree).
PYPLAN = {
    "C19": {
        "script": "c19_py.py",
        "quick": 96_000,
        "thorough": 1_600_000,
        "rule": "Python front end: example = arguments of one Python model constructor {Categorical, Uniform, QuantizedGaussian/Laplace/Cauchy, "
                "Binomial, Bernoulli}, as a concrete model or as a model family whose parameters arrive with the coder call; hostile and valid "
                "float tables / parameters / supports; oracle: any Python exception (incl. PanicException) = clean failure; an accepted model must "
                "encode the tried support symbols, round-trip them through the ANS and the range coder, decode arbitrary words to support symbols "
                "only and refuse the two neighbours of its support; a single-symbol support is never accepted; a killed interpreter or a call "
                "that does not return is a violation; non-trivial = an accepted model with >= 3 symbols that went through all of these",
    },
}


# The coder classes of the Python front end (pycheck/coders_py.py): one entry per property they help to decide.
_PY_CODER_RULES = {
    "C01": "Python AnsCoder histories (scalar / i.i.d. array / model-family call forms of encode_reverse and decode, reload through get_compressed, clone, pos / seek, refused symbols) against a stack model and a pure-Python reference rANS fed with the model's exact table; non-trivial = a push popped after a reload, or a history of >= 4 operations",
    "C02": "Python RangeEncoder histories (three call forms, inspections, clear) decoded by RangeDecoder / get_decoder in generated call forms: FIFO equality, empty message has no words, maybe_exhausted at the end; non-trivial = message of >= 3 symbols",
    "C04": "Python AnsCoder(words, seal=True): decode with generated call forms, encode back in reverse (scalar / i.i.d. / family form), get_compressed(unseal=True) equals the words; every decoded symbol equals the table lookup of the reference's quantile; non-trivial = >= 2 symbols decoded and restored",
    "C06": "get_compressed() of the Python AnsCoder after every step and of the Python RangeEncoder at generated prefixes and at the end equals the pure-Python reference coder (rANS / carry-propagating range coder with the documented seal) fed with the model's exact table; non-trivial = >= 3 symbols",
    "C07": "Python pos() / seek(): AnsCoder snapshots sought back to (state and bulk position equal the reference's), RangeEncoder.pos() snapshots at symbol boundaries sought to by the RangeDecoder in arbitrary order, positions beyond the data refused and the coder unchanged; non-trivial = >= 3 symbols",
    "C08": "Python inspections (get_compressed, num_words, num_bits, num_valid_bits, is_empty, pos, get_decoder, clone) between operations: the coder's export stays equal to the reference's; non-trivial = >= 3 symbols",
    "C09": "Python: symbols outside the model's support (neighbours, far away, i32 extremes; scalar, i.i.d. and family form) on AnsCoder, RangeEncoder, ChainCoder and the symbol coders must raise and leave the coder's export unchanged; non-trivial = history with >= 3 symbols",
    "C10": "Python: AnsCoder (seal=True) / RangeDecoder / ChainCoder over arbitrary words: every call returns or raises an ordinary exception, decoded symbols lie in the support and equal the table lookup of the reference decoder's quantile; non-trivial = >= 2 symbols decoded",
    "C13": "Python ChainCoder(words, seal) decode in generated call forms, export / re-import in the three documented ways (same coder, get_remainders concatenated, suffix only), re-encode in reverse (three call forms), get_data(unseal=seal) restores the words; non-trivial = >= 2 symbols",
    "C15": "Python Huffman trees over integer-valued weights: codewords (read off a fresh QueueEncoder) prefix-free, Kraft sum 1, cost equal to the optimum; non-trivial = >= 3 symbols and a message of >= 3",
    "C16": "Python QueueEncoder / QueueDecoder / StackCoder with Huffman codebooks: bit rate = sum of codeword lengths, queue content = codewords in order (little-endian packing), FIFO / LIFO round trips directly and through export / re-import; non-trivial = >= 3 symbols and a message of >= 3",
    "C18": "Python num_words / num_bits / num_valid_bits / is_empty of AnsCoder and RangeEncoder after generated histories against the reference's export; non-trivial = >= 3 symbols",
}
for _pid, _rule in _PY_CODER_RULES.items():
    PYPLAN[_pid] = {"script": "coders_py.py", "args": ["--prop", _pid], "quick": 12_000, "thorough": 400_000, "rule": "Python front end: " + _rule}
