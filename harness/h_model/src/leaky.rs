//! Leakily quantised distributions (`LeakyQuantizer::quantize`).  `ctx.param` selects the
//! property exactly as in `cat.rs` (3, 5, 18, 19).
//!
//! Generator: 14 (Symbol, Probability, PRECISION) combinations (symbol type narrower than,
//! equal to and wider than the probability type, signed and unsigned); supports of
//! 2..min(2^P, 600) symbols placed anywhere in the symbol type including its MIN / MAX;
//! distributions from the `probability` crate (Gaussian, Laplace, Cauchy, Logistic,
//! Exponential, Uniform, Lognormal, Triangular, Beta, Bernoulli, Binomial) with location /
//! scale parameters over hundreds of decades but inside each constructor's contract, plus
//! the harness's `Step` distribution: a piecewise constant or piecewise linear monotone
//! CDF from a generated table (tails cut off on either side, flat stretches, jumps exactly
//! on half-integers).  The inverse-CDF *hint* handed to the library is one of: the true
//! inverse, a constant, a shifted or scaled inverse, a saturating one — the documentation
//! only requires it to be finite and monotone.
//!
//! Every generated distribution is pre-validated on all support mid-points against the
//! documented preconditions (finite, within [0,1], non-decreasing); otherwise the case is
//! discarded (counted).

use crate::cat::{build, diagnostics, Built};
use crate::validate::*;
use constriction::stream::model::*;
use probability::distribution as pd;
use vengine::{note, vcheck, CaseResult, Ctx, Fail, Src};

#[derive(Clone)]
enum Inner {
    Gaussian(pd::Gaussian),
    Laplace(pd::Laplace),
    Cauchy(pd::Cauchy),
    Logistic(pd::Logistic),
    Exponential(pd::Exponential),
    Uniform(pd::Uniform),
    Lognormal(pd::Lognormal),
    Triangular(pd::Triangular),
    Beta(pd::Beta),
    Bernoulli(pd::Bernoulli),
    Binomial(pd::Binomial),
    Step { xs: Vec<f64>, vs: Vec<f64>, linear: bool },
}

#[derive(Clone, Copy, Debug)]
enum Hint {
    True,
    Const(f64),
    Shift(f64),
    Scale(f64),
    Saturate(f64),
}

#[derive(Clone)]
pub struct AnyDist {
    inner: Inner,
    hint: Hint,
    desc: String,
}

impl AnyDist {
    fn cdf(&self, x: f64) -> f64 {
        use pd::Distribution;
        match &self.inner {
            Inner::Gaussian(d) => d.distribution(x),
            Inner::Laplace(d) => d.distribution(x),
            Inner::Cauchy(d) => d.distribution(x),
            Inner::Logistic(d) => d.distribution(x),
            Inner::Exponential(d) => d.distribution(x),
            Inner::Uniform(d) => d.distribution(x),
            Inner::Lognormal(d) => d.distribution(x),
            Inner::Triangular(d) => d.distribution(x),
            Inner::Beta(d) => d.distribution(x),
            Inner::Bernoulli(d) => d.distribution(x),
            Inner::Binomial(d) => d.distribution(x),
            Inner::Step { xs, vs, linear } => {
                // number of breakpoints <= x
                let k = xs.partition_point(|&b| b <= x);
                if k == 0 {
                    return vs[0];
                }
                if k == xs.len() || !*linear {
                    return vs[k];
                }
                // linear between breakpoint k-1 and k, from vs[k] to vs[k+1]... keep it simple:
                let (x0, x1) = (xs[k - 1], xs[k]);
                let (v0, v1) = (vs[k], vs[k + 1]);
                let t = ((x - x0) / (x1 - x0)).clamp(0.0, 1.0);
                v0 + t * (v1 - v0)
            }
        }
    }
    fn true_inverse(&self, p: f64) -> f64 {
        use pd::Inverse;
        let p = p.clamp(0.0, 1.0);
        match &self.inner {
            Inner::Gaussian(d) => d.inverse(p),
            Inner::Laplace(d) => d.inverse(p),
            Inner::Cauchy(d) => d.inverse(p),
            Inner::Logistic(d) => d.inverse(p),
            Inner::Exponential(d) => d.inverse(p),
            Inner::Uniform(d) => d.inverse(p),
            Inner::Lognormal(d) => d.inverse(p),
            Inner::Triangular(d) => d.inverse(p),
            Inner::Beta(d) => d.inverse(p),
            Inner::Bernoulli(d) => d.inverse(p) as f64,
            Inner::Binomial(d) => d.inverse(p) as f64,
            Inner::Step { xs, vs, .. } => {
                // smallest breakpoint whose value reaches p
                for (i, &b) in xs.iter().enumerate() {
                    if vs[i + 1] >= p {
                        return b;
                    }
                }
                *xs.last().unwrap()
            }
        }
    }
}

impl AnyDist {
    pub fn describe(&self) -> &str {
        &self.desc
    }
}

/// A distribution that satisfies the documented preconditions on all mid points of
/// `lo..=hi` (at most 4000 of them are probed); `None` otherwise.
pub fn gen_any_dist(src: &mut Src, lo: i64, hi: i64) -> Option<AnyDist> {
    let dist = gen_dist(src, lo as f64, hi as f64);
    let mut prev = 0.0f64;
    let stride = (((hi - lo) as u64 / 4000) + 1) as usize;
    for s in (lo..hi).step_by(stride) {
        let c = dist.cdf(s as f64 + 0.5);
        if !(c.is_finite() && (0.0..=1.0).contains(&c) && c >= prev) {
            return None;
        }
        prev = c;
    }
    Some(dist)
}

impl pd::Distribution for AnyDist {
    type Value = f64;
    fn distribution(&self, x: f64) -> f64 {
        self.cdf(x)
    }
}

impl pd::Inverse for AnyDist {
    fn inverse(&self, p: f64) -> f64 {
        let t = self.true_inverse(p);
        let t = if t.is_nan() { 0.0 } else { t.clamp(-1e300, 1e300) };
        match self.hint {
            Hint::True => t,
            Hint::Const(c) => c,
            Hint::Shift(s) => (t + s).clamp(-1e300, 1e300),
            Hint::Scale(s) => (t * s).clamp(-1e300, 1e300),
            Hint::Saturate(s) => {
                if p < 0.5 { -s } else { s }
            }
        }
    }
}

fn decade(src: &mut Src, lo: i32, hi: i32) -> f64 {
    let e = lo + src.below((hi - lo + 1) as u64) as i32;
    (1.0 + src.below(9) as f64) * 10f64.powi(e)
}

/// A location near the support (so that mass falls inside it) or far away (so that the
/// support sees only a tail).
fn location(src: &mut Src, lo: f64, hi: f64) -> f64 {
    match src.below(6) {
        0 => lo - 0.5,
        1 => hi + 0.5,
        2 => lo + (hi - lo) * src.unit_f64(),
        3 => (lo + (hi - lo) * src.unit_f64()).round() + 0.5,
        4 => {
            let s = if src.bool() { 1.0 } else { -1.0 };
            s * decade(src, 0, 300)
        }
        _ => lo + (hi - lo) * (src.unit_f64() * 3.0 - 1.0),
    }
}

fn gen_dist(src: &mut Src, lo: f64, hi: f64) -> AnyDist {
    let kind = src.below(16);
    let (inner, desc) = match kind {
        0 | 1 => {
            let (m, s) = (location(src, lo, hi), decade(src, -300, 300));
            (Inner::Gaussian(pd::Gaussian::new(m, s)), format!("Gaussian({m:e}, {s:e})"))
        }
        2 => {
            let (m, s) = (location(src, lo, hi), decade(src, -300, 300));
            (Inner::Laplace(pd::Laplace::new(m, s)), format!("Laplace({m:e}, {s:e})"))
        }
        3 => {
            let (m, s) = (location(src, lo, hi), decade(src, -300, 300));
            (Inner::Cauchy(pd::Cauchy::new(m, s)), format!("Cauchy({m:e}, {s:e})"))
        }
        4 => {
            let (m, s) = (location(src, lo, hi), decade(src, -300, 300));
            (Inner::Logistic(pd::Logistic::new(m, s)), format!("Logistic({m:e}, {s:e})"))
        }
        5 => {
            let l = decade(src, -300, 300);
            (Inner::Exponential(pd::Exponential::new(l)), format!("Exponential({l:e})"))
        }
        6 => {
            let a = location(src, lo, hi);
            let b = a + decade(src, -10, 300).min(1e300);
            if a < b && b.is_finite() {
                (Inner::Uniform(pd::Uniform::new(a, b)), format!("Uniform({a:e}, {b:e})"))
            } else {
                (Inner::Uniform(pd::Uniform::new(0.0, 1.0)), "Uniform(0, 1)".into())
            }
        }
        7 => {
            let (m, s) = (src.unit_f64() * 20.0 - 10.0, decade(src, -5, 2));
            (Inner::Lognormal(pd::Lognormal::new(m, s)), format!("Lognormal({m:e}, {s:e})"))
        }
        8 => {
            let a = location(src, lo, hi).clamp(-1e100, 1e100);
            let w = decade(src, -3, 6);
            let b = a + w;
            let c = a + w * src.unit_f64();
            if a < b && a <= c && c <= b {
                (Inner::Triangular(pd::Triangular::new(a, b, c)), format!("Triangular({a:e}, {b:e}, {c:e})"))
            } else {
                (Inner::Triangular(pd::Triangular::new(0.0, 2.0, 1.0)), "Triangular(0, 2, 1)".into())
            }
        }
        9 => {
            // (shape parameters far outside this range make the `probability` crate's incomplete beta
            // function take milliseconds per evaluation)
            // (Beta(0.1, 50) on a support deep in one tail still needs ~0.2 s per evaluation: a 20 s case that trips the
            // per-case watchdog on a loaded machine; [0.5, 20] keeps every evaluation below a millisecond)
            let (al, be) = (decade(src, -1, 1).clamp(0.5, 20.0), decade(src, -1, 1).clamp(0.5, 20.0));
            let a = location(src, lo, hi).clamp(-1e100, 1e100);
            let b = a + decade(src, -3, 6);
            if a < b {
                (Inner::Beta(pd::Beta::new(al, be, a, b)), format!("Beta({al:e}, {be:e}, {a:e}, {b:e})"))
            } else {
                (Inner::Beta(pd::Beta::new(2.0, 2.0, 0.0, 1.0)), "Beta(2, 2, 0, 1)".into())
            }
        }
        10 => {
            let p = (1 + src.below(998)) as f64 / 1000.0;
            (Inner::Bernoulli(pd::Bernoulli::new(p)), format!("Bernoulli({p})"))
        }
        11 => {
            let n = 1 + src.below_usize(200);
            let p = (10 + src.below(981)) as f64 / 1000.0;
            (Inner::Binomial(pd::Binomial::new(n, p)), format!("Binomial({n}, {p})"))
        }
        _ => {
            // step / piecewise-linear CDF
            let k = 1 + src.below_usize(8);
            let mut xs: Vec<f64> = (0..k)
                .map(|_| {
                    let base = lo + (hi - lo) * (src.unit_f64() * 1.4 - 0.2);
                    match src.below(3) {
                        0 => base.round() + 0.5, // exactly on a half-integer
                        1 => base.round(),
                        _ => base,
                    }
                })
                .collect();
            xs.sort_by(|a, b| a.partial_cmp(b).unwrap());
            xs.dedup();
            let k = xs.len();
            // k+1 non-decreasing values in [0,1]: value before xs[0], then after each breakpoint
            let mut vs: Vec<f64> = (0..k + 1).map(|_| src.unit_f64()).collect();
            vs.sort_by(|a, b| a.partial_cmp(b).unwrap());
            match src.below(4) {
                0 => vs[0] = 0.0,
                1 => {
                    vs[0] = 0.0;
                    vs[k] = 1.0;
                }
                2 => vs[k] = 1.0,
                _ => {}
            }
            if src.ratio(1, 3) && k >= 2 {
                vs[1] = vs[0]; // flat stretch
            }
            let linear = src.bool() && k >= 2;
            // linear interpolation needs vs[k+1]
            let mut vs2 = vs.clone();
            vs2.push(*vs.last().unwrap());
            let desc = format!("Step{{xs: {:?}, vs: {:?}, linear: {}}}", xs, vs, linear);
            (Inner::Step { xs, vs: vs2, linear }, desc)
        }
    };
    let hint = match src.below(8) {
        0 => Hint::Const(location(src, lo, hi).clamp(-1e300, 1e300)),
        1 => Hint::Shift(if src.bool() { 1.0 } else { -1.0 } * decade(src, 0, 6)),
        2 => Hint::Scale(decade(src, -3, 3)),
        3 => Hint::Saturate(1e300),
        _ => Hint::True,
    };
    let desc = format!("{desc} hint {hint:?}");
    AnyDist { inner, hint, desc }
}

macro_rules! leaky_cfg {
    ($name:ident, $label:literal, $Sym:ty, $Pr:ty, $P:literal, lookup = $lookup:tt) => {
        pub fn $name(src: &mut Src, ctx: &mut Ctx) -> CaseResult {
            const P: usize = $P;
            type Pr = $Pr;
            type Sym = $Sym;
            let mode = ctx.param;
            let prop: &str = match mode { 19 => "C19", 5 | 18 => "FOREIGN", _ => "C03" };
            let hostile = mode == 19;
            ctx.label(concat!("cfg:", $label));
            note!(ctx, "cfg {} mode {}", $label, mode);
            let total: u64 = 1u64 << P;
            let key = |s: &Sym| *s as i64;
            let (tmin, tmax) = (<Sym>::MIN as i64, <Sym>::MAX as i64);
            let span = (tmax - tmin) as u64; // number of values - 1
            let max_size = total.min(if ctx.tier == 0 { 600 } else { 4000 }).min(span + 1);
            // ---- support -------------------------------------------------------------
            let (lo, hi): (i64, i64) = if hostile && src.ratio(2, 3) {
                match src.below(6) {
                    0 => {
                        let a = tmin + src.below(span + 1) as i64;
                        (a, a) // single symbol
                    }
                    1 => {
                        let a = tmin + 1 + src.below(span) as i64;
                        (a, a - 1 - src.below((a - tmin) as u64) as i64) // reversed / empty
                    }
                    2 => {
                        // wider than 2^P
                        let size = total + 1 + src.below(5);
                        if size <= span + 1 {
                            let a = tmin + src.below(span + 2 - size) as i64;
                            (a, a + size as i64 - 1)
                        } else {
                            (tmin, tmax)
                        }
                    }
                    3 => {
                        // wider than the probability *type* (wraps when cast)
                        let wrap = 1u64 << <Pr>::BITS;
                        let size = wrap + 2 + src.below(6);
                        if size <= span + 1 {
                            let a = tmin + src.below(span + 2 - size) as i64;
                            (a, a + size as i64 - 1)
                        } else {
                            (tmin, tmax)
                        }
                    }
                    4 => (tmin, tmax),
                    _ => (tmax - 1, tmax),
                }
            } else {
                let size = 2 + src.edgy(max_size - 1);
                let room = span + 1 - size;
                let a = tmin + src.edgy(room + 1) as i64;
                (a, a + size as i64 - 1)
            };
            note!(ctx, "support {}..={}", lo, hi);
            let valid_support = hi > lo && ((hi - lo) as u64) < total;
            let q = match build(|| Ok(LeakyQuantizer::<f64, Sym, Pr, P>::new(lo as Sym..=hi as Sym))) {
                Built::Ok(q) => q,
                Built::Rejected => unreachable!(),
                Built::Panicked(p) => {
                    if p.origin == vengine::PanicOrigin::Harness {
                        panic!("harness bug: {}", p.render());
                    }
                    if valid_support {
                        // a spurious rejection of a valid support is tolerated by the wording of C03 / C19
                        ctx.label("rejected_valid_support");
                    } else {
                        ctx.label("invalid_support_rejected");
                    }
                    return Ok(());
                }
            };
            if hostile {
                vcheck!(valid_support, "C19/quantizer_accepted_invalid_support", "LeakyQuantizer::<f64, {}, {}, {}>::new({}..={}) was accepted", stringify!($Sym), stringify!($Pr), P, lo, hi);
            }
            if !valid_support {
                return Ok(());
            }
            // ---- distribution --------------------------------------------------------
            let dist = gen_dist(src, lo as f64, hi as f64);
            note!(ctx, "{}", dist.desc);
            // documented preconditions on all mid points
            let mut prev = 0.0f64;
            let stride = (((hi - lo) as u64 / 4000) + 1) as usize;
            for s in (lo..hi).step_by(stride) {
                let c = dist.cdf(s as f64 + 0.5);
                if !(c.is_finite() && (0.0..=1.0).contains(&c) && c >= prev) {
                    ctx.discard("cdf_violates_documented_preconditions");
                    return Ok(());
                }
                prev = c;
            }
            let what = format!("LeakyQuantizer<f64,{},{},{}>::new({}..={}).quantize({})", stringify!($Sym), stringify!($Pr), P, lo, hi, dist.desc);
            let m = q.quantize(dist.clone());
            if (hi - lo) as u64 >= 4000 {
                // too large to walk (only reachable with hostile supports): probe both views on a sample
                ctx.label("large_support_probed");
                let mut probes: Vec<i64> = vec![lo, lo + 1, hi - 1, hi];
                for _ in 0..24 {
                    probes.push(lo + src.below((hi - lo) as u64 + 1) as i64);
                }
                for s in probes {
                    let (l, p) = match m.left_cumulative_and_probability(s as Sym) {
                        Some(x) => x,
                        None => return Err(Fail::new(format!("{prop}/support_symbol_impossible"), format!("{what}: symbol {s}"))),
                    };
                    let (l, p): (u64, u64) = (l.into(), p.get().into());
                    vcheck!(p > 0 && p < total && l + p <= total, format!("{prop}/intervals_exceed_total"), "{}: symbol {} -> ({}, {})", what, s, l, p);
                    for q in [l, l + p - 1] {
                        let (s2, l2, p2) = m.quantile_function(q as Pr);
                        vcheck!((s2 as i64, l2 as u64, p2.get() as u64) == (s, l, p), format!("{prop}/quantile_function_disagrees_with_encoder"), "{}: quantile {} -> ({}, {}, {}) but symbol {} has ({}, {})", what, q, s2, l2, p2, s, l, p);
                    }
                }
                return Ok(());
            }
            let support = || (lo..=hi).map(|s| s as Sym);
            let t = table_from_encoder::<_, P>(&m, support(), key, prop, &what)?;
            check_tiling(&t, prop, &what)?;
            let leak_only = t.rows.iter().filter(|r| r.2 == 1).count();
            ctx.label_if(leak_only > 0, "symbol_with_leak_probability_only");
            let exhaustive_up_to = if ctx.tier == 0 { 4096 } else { 65536 };
            let qs = quantiles(&t, src, exhaustive_up_to, 48);
            check_decoder::<_, P>(&m, &t, &qs, key, prop, &what)?;
            let mut outside: Vec<Sym> = Vec::new();
            if lo > tmin {
                outside.push((lo - 1) as Sym);
                outside.push(tmin as Sym);
            }
            if hi < tmax {
                outside.push((hi + 1) as Sym);
                outside.push(tmax as Sym);
            }
            check_outside::<_, P>(&m, &outside, key, prop, &what)?;
            if t.rows.len() >= 3 && (leak_only > 0 || mode != 3) {
                ctx.nontrivial();
            }
            if mode == 5 {
                comparing(true);
                // the conversions below reserve `size_hint().0` entries: a lower bound above the
                // real length makes them reserve (and, where memory is limited, fail to
                // reserve) gigabytes for a handful of symbols
                let (lower, upper) = m.symbol_table().size_hint();
                vcheck!(
                    lower <= t.rows.len() && upper.map_or(true, |u| u >= t.rows.len()),
                    "C05/symbol_table_size_hint_inconsistent_with_length",
                    "{}: symbol_table().size_hint() = ({}, {:?}) but the table has {} symbols",
                    what,
                    lower,
                    upper,
                    t.rows.len()
                );
                let it = table_from_iter::<_, P>(&m, key);
                tables_equal(&t, &it, "encoder view", "symbol_table")?;
                let ge = m.to_generic_encoder_model();
                tables_equal(&t, &table_from_encoder::<_, P>(&ge, support(), key, "C05", "to_generic_encoder_model")?, "encoder view", "generic encoder model")?;
                let gd = m.to_generic_decoder_model();
                tables_equal(&t, &table_from_iter::<_, P>(&gd, key), "encoder view", "generic decoder model")?;
                check_decoder::<_, P>(&gd, &t, &qs, key, "C05", "to_generic_decoder_model")?;
                leaky_lookup!($lookup, m, t, qs, key, P);
                // a reference to the model is the same model
                tables_equal(&t, &table_from_encoder::<_, P>(&&m, support(), key, "C05", "&model")?, "encoder view", "reference to model")?;
                ctx.label("representations_compared");
                comparing(false);
            }
            if mode == 18 {
                diagnostics::<_, P>(&m, &t, src, ctx, &what)?;
            }
            Ok(())
        }
    };
}

macro_rules! leaky_lookup {
    (true, $m:expr, $t:expr, $qs:expr, $key:expr, $P:expr) => {{
        let gl = $m.to_generic_lookup_decoder_model();
        tables_equal(&$t, &table_from_iter::<_, $P>(&gl, $key), "encoder view", "generic lookup decoder model")?;
        check_decoder::<_, $P>(&gl, &$t, &$qs, $key, "C05", "to_generic_lookup_decoder_model")?;
    }};
    (false, $m:expr, $t:expr, $qs:expr, $key:expr, $P:expr) => {{}};
}

leaky_cfg!(l_i8_u8_3, "i8/u8/3", i8, u8, 3, lookup = true);
leaky_cfg!(l_u8_u8_8, "u8/u8/8", u8, u8, 8, lookup = true);
leaky_cfg!(l_i8_u8_8, "i8/u8/8", i8, u8, 8, lookup = true);
leaky_cfg!(l_i16_u8_8, "i16/u8/8", i16, u8, 8, lookup = true);
leaky_cfg!(l_i32_u8_3, "i32/u8/3", i32, u8, 3, lookup = true);
leaky_cfg!(l_u8_u16_12, "u8/u16/12", u8, u16, 12, lookup = true);
leaky_cfg!(l_u32_u16_12, "u32/u16/12", u32, u16, 12, lookup = true);
leaky_cfg!(l_i32_u16_12, "i32/u16/12", i32, u16, 12, lookup = true);
leaky_cfg!(l_i16_u16_16, "i16/u16/16", i16, u16, 16, lookup = false);
leaky_cfg!(l_i32_u16_16, "i32/u16/16", i32, u16, 16, lookup = false);
leaky_cfg!(l_i8_u32_24, "i8/u32/24", i8, u32, 24, lookup = false);
leaky_cfg!(l_u16_u32_24, "u16/u32/24", u16, u32, 24, lookup = false);
leaky_cfg!(l_i32_u32_24, "i32/u32/24", i32, u32, 24, lookup = false);
leaky_cfg!(l_u32_u32_32, "u32/u32/32", u32, u32, 32, lookup = false);
leaky_cfg!(l_i32_u32_32, "i32/u32/32", i32, u32, 32, lookup = false);

fn leaky_inner(src: &mut Src, ctx: &mut Ctx) -> CaseResult {
    match src.below(14) {
        // (the empty case must keep selecting i8/u8/3: committed witnesses rely on it)
        0 => {
            if src.bool() {
                // signed symbols exactly as wide as the probability type, full precision: supports wider than half the type
                l_i8_u8_8(src, ctx)
            } else {
                l_i8_u8_3(src, ctx)
            }
        }
        1 => l_u8_u8_8(src, ctx),
        2 => l_i16_u8_8(src, ctx),
        3 => l_i32_u8_3(src, ctx),
        4 => l_u8_u16_12(src, ctx),
        5 => l_u32_u16_12(src, ctx),
        6 => l_i32_u16_12(src, ctx),
        7 => l_i16_u16_16(src, ctx),
        8 => l_i32_u16_16(src, ctx),
        9 => l_i8_u32_24(src, ctx),
        10 => l_u16_u32_24(src, ctx),
        11 => l_i32_u32_24(src, ctx),
        12 => l_u32_u32_32(src, ctx),
        _ => l_i32_u32_32(src, ctx),
    }
}

pub fn leaky(src: &mut Src, ctx: &mut Ctx) -> CaseResult {
    let mode = ctx.param;
    let r = if mode == 5 || mode == 18 {
        comparing(false);
        match vengine::catch(|| leaky_inner(src, ctx)) {
            Ok(r) => r,
            Err(p) if p.origin == vengine::PanicOrigin::Harness => panic!("harness bug: {}", p.render()),
            Err(p) if p.origin == vengine::PanicOrigin::Dependency => {
                comparing(false);
                ctx.discard("dep_panic");
                return Ok(());
            }
            Err(p) if is_comparing() => {
                comparing(false);
                return Err(Fail::new(format!("C{:02}/panic_in_conversion_or_accessor/{}", mode, p.signature()), p.render()));
            }
            Err(_) => {
                ctx.discard("foreign:panic_in_model_code");
                return Ok(());
            }
        }
    } else {
        leaky_inner(src, ctx)
    };
    match r {
        Err(f) if f.sig.starts_with("FOREIGN/") => {
            ctx.discard("foreign_property_violated");
            Ok(())
        }
        other => other,
    }
}

#[allow(dead_code)]
fn _unused(_: Fail) {}
