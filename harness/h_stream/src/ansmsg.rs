//! ANS interpreters that are not operation histories:
//!
//! * `c04_*` — C04: bits-back / surjectivity.  Arbitrary words are loaded as raw binary
//!   data through five constructors, any number of symbols is decoded with arbitrary
//!   models (also far past the end of the data, optionally interleaved with push/pop
//!   pairs), the symbols are encoded back in reverse, and the raw binary export (consuming
//!   and borrowing accessor) must be word-for-word the original data.
//! * `ans_msg` with `ctx.param = 6` — C06: exported words equal the reference rANS coder
//!   after every prefix and after popping part of the message again.
//! * `ans_msg` with `ctx.param = 12` — C12: size bound at every prefix.

use constriction::backends::{Cursor, Reverse};
use constriction::stream::stack::AnsCoder;
use constriction::stream::{Code, Decode, Encode};
use constriction::UnwrapInfallible;
use core::convert::Infallible;
use hcommon::refs::RefAns;
use hcommon::{gen_tab, gen_words, hexwords, Tab};
use vengine::{note, vassume, vcheck, vfail, CaseResult, Ctx, Src};

macro_rules! precs {
    ([$(($Pr:ty, $P:literal)),+]) => { [$($P as u32),+] };
}

macro_rules! c04_row {
    ($name:ident, $label:literal, $W:ty, $S:ty, $plist:tt) => {
        pub fn $name(src: &mut Src, ctx: &mut Ctx) -> CaseResult {
            type Coder = AnsCoder<$W, $S, Vec<$W>>;
            const PRECS: &[u32] = &precs!($plist);
            ctx.label(concat!("cfg:", $label));
            note!(ctx, "cfg {}", $label);
            let wbits = <$W>::BITS as usize;
            let data: Vec<$W> = gen_words(src, wbits as u32, if ctx.tier == 0 { 24 } else { 200 })
                .into_iter()
                .map(|x| x as $W)
                .collect();
            note!(ctx, "data {}", hexwords(&data));
            ctx.label_if(data.is_empty(), "empty_data");
            ctx.label_if(data.last() == Some(&0), "data_ends_in_zero_word");
            let alt = src.below(5);
            let n_dec = match src.below(4) {
                0 => src.below_usize(4),
                _ => src.below_usize(if ctx.tier == 0 { 41 } else { 400 }),
            };

            let mut coder = Coder::from_binary(data.clone()).unwrap_infallible();
            vcheck!(
                coder.num_valid_bits() == wbits * data.len(),
                "C04/num_valid_bits_after_import",
                "from_binary({}) reports {} valid bits, data has {}",
                hexwords(&data),
                coder.num_valid_bits(),
                wbits * data.len()
            );
            vcheck!(!coder.is_empty(), "C04/from_binary_is_empty", "coder from_binary({}) reports is_empty", hexwords(&data));
            {
                let mut exp = data.clone();
                exp.push(1);
                let got = coder.clone().into_compressed().unwrap_infallible();
                vcheck!(got == exp, "C04/compressed_is_not_data_plus_one", "into_compressed {} expected {}", hexwords(&got), hexwords(&exp));
            }

            // ---- decode any number of symbols with any models ------------------------
            let mut syms: Vec<(usize, Tab)> = Vec::new();
            let mut cur_sel: u8 = src.below(PRECS.len() as u64) as u8;
            let mut refills = 0;
            for _ in 0..n_dec {
                if src.ratio(1, 3) {
                    cur_sel = src.below(PRECS.len() as u64) as u8;
                }
                let tab = gen_tab(src, PRECS[cur_sel as usize], cur_sel, 8);
                if src.ratio(1, 8) {
                    // interleave a push that is popped again
                    let s = src.below_usize(tab.n());
                    let r = with_prec!(tab.sel, $plist, |M| coder.encode_symbol(s, M::new(&tab)));
                    vcheck!(r.is_ok(), "C04/encode_failed", "{:?}", r);
                    let d = with_prec!(tab.sel, $plist, |M| coder.decode_symbol(M::new(&tab)));
                    vcheck!(matches!(d, Ok(x) if x == s), "C04/interleaved_push_pop", "pushed {} popped {:?}", s, d);
                    ctx.label("interleaved_push_pop");
                }
                let len_b = coder.bulk().len();
                if len_b == 0 && coder.state() < ((1 as $S) << (<$S>::BITS as usize - wbits)) {
                    ctx.label("decoded_past_end");
                }
                let r = with_prec!(tab.sel, $plist, |M| coder.decode_symbol(M::new(&tab)));
                let s = match r {
                    Ok(s) => s,
                    Err(e) => vfail!("C04/decode_failed", "decoding from arbitrary data failed: {:?}", e),
                };
                vcheck!(s < tab.n(), "C04/decoded_symbol_outside_model", "decoded {} with {}", s, tab.render());
                if coder.bulk().len() < len_b {
                    refills += 1;
                }
                note!(ctx, "decode -> {} with {}", s, tab.render());
                syms.push((s, tab));
            }
            if !syms.is_empty() && refills > 0 {
                ctx.nontrivial();
            }

            // ---- the same data through another constructor/backend --------------------
            match alt {
                0 => {}
                1 => {
                    ctx.label("alt:binary_slice");
                    let mut c = AnsCoder::<$W, $S, _>::from_binary_slice(&data[..]);
                    vcheck!(c.num_valid_bits() == wbits * data.len(), "C04/num_valid_bits_after_import", "from_binary_slice: {} vs {}", c.num_valid_bits(), wbits * data.len());
                    for (i, (s, tab)) in syms.iter().enumerate() {
                        let r = with_prec!(tab.sel, $plist, |M| c.decode_symbol(M::new(tab)).ok());
                        vcheck!(r == Some(*s), "C04/backends_disagree", "from_binary_slice decodes symbol {} as {:?}, Vec-backed coder as {}", i, r, s);
                    }
                }
                2 => {
                    ctx.label("alt:reversed_iter");
                    let it = data.iter().rev().map(|w| Ok::<$W, Infallible>(*w));
                    let mut c = AnsCoder::<$W, $S, _>::from_reversed_binary_iter(it).unwrap_infallible();
                    for (i, (s, tab)) in syms.iter().enumerate() {
                        let r = with_prec!(tab.sel, $plist, |M| c.decode_symbol(M::new(tab)).ok());
                        vcheck!(r == Some(*s), "C04/backends_disagree", "from_reversed_binary_iter decodes symbol {} as {:?}, Vec-backed coder as {}", i, r, s);
                    }
                }
                3 => {
                    ctx.label("alt:owned_cursor_roundtrip");
                    let mut c = AnsCoder::<$W, $S, _>::from_binary(Cursor::new_at_write_end(data.clone())).unwrap_infallible();
                    vcheck!(c.num_valid_bits() == wbits * data.len(), "C04/num_valid_bits_after_import", "Cursor: {} vs {}", c.num_valid_bits(), wbits * data.len());
                    for (i, (s, tab)) in syms.iter().enumerate() {
                        let r = with_prec!(tab.sel, $plist, |M| c.decode_symbol(M::new(tab)).ok());
                        vcheck!(r == Some(*s), "C04/backends_disagree", "Cursor-backed coder decodes symbol {} as {:?}, Vec-backed coder as {}", i, r, s);
                    }
                    for (s, tab) in syms.iter().rev() {
                        let r = with_prec!(tab.sel, $plist, |M| c.encode_symbol(*s, M::new(tab)));
                        vcheck!(r.is_ok(), "C04/reencode_failed", "Cursor-backed coder: {:?}", r);
                    }
                    {
                        match c.get_binary() {
                            Ok(g) => {
                                let cur: &Cursor<$W, Vec<$W>> = &*g;
                                let (buf, pos) = cur.clone().into_buf_and_pos();
                                vcheck!(buf[..pos] == data[..], "C04/get_binary_differs", "Cursor-backed get_binary {} vs data {}", hexwords(&buf[..pos]), hexwords(&data));
                            }
                            Err(e) => vfail!("C04/get_binary_failed", "Cursor-backed get_binary after round trip -> {:?}", e),
                        };
                    }
                    match c.into_binary() {
                        Ok(cur) => {
                            let (buf, pos) = cur.into_buf_and_pos();
                            vcheck!(buf[..pos] == data[..], "C04/into_binary_differs", "Cursor-backed into_binary {} vs data {}", hexwords(&buf[..pos]), hexwords(&data));
                        }
                        Err(e) => vfail!("C04/into_binary_failed", "Cursor-backed into_binary after round trip -> {:?}", e),
                    }
                }
                _ => {
                    ctx.label("alt:reversed_cursor_roundtrip");
                    let rev: Vec<$W> = data.iter().rev().cloned().collect();
                    let mut c = AnsCoder::<$W, $S, _>::from_reversed_binary(rev);
                    for (i, (s, tab)) in syms.iter().enumerate() {
                        let r = with_prec!(tab.sel, $plist, |M| c.decode_symbol(M::new(tab)).ok());
                        vcheck!(r == Some(*s), "C04/backends_disagree", "reversed coder decodes symbol {} as {:?}, Vec-backed coder as {}", i, r, s);
                    }
                    for (s, tab) in syms.iter().rev() {
                        let r = with_prec!(tab.sel, $plist, |M| c.encode_symbol(*s, M::new(tab)));
                        vcheck!(r.is_ok(), "C04/reencode_failed", "reversed coder: {:?}", r);
                    }
                    match c.into_binary() {
                        Ok(Reverse(cur)) => {
                            let (buf, pos) = cur.into_buf_and_pos();
                            let got: Vec<$W> = buf[pos..].iter().rev().cloned().collect();
                            vcheck!(got == data, "C04/into_binary_differs", "reversed into_binary {} vs data {}", hexwords(&got), hexwords(&data));
                        }
                        Err(e) => vfail!("C04/into_binary_failed", "reversed into_binary after round trip -> {:?}", e),
                    }
                }
            }

            // ---- encode the symbols back in reverse order -----------------------------
            for (s, tab) in syms.iter().rev() {
                let r = with_prec!(tab.sel, $plist, |M| coder.encode_symbol(*s, M::new(tab)));
                vcheck!(r.is_ok(), "C04/reencode_failed", "encode_symbol({}, {}) -> {:?}", s, tab.render(), r);
            }
            vcheck!(
                coder.num_valid_bits() == wbits * data.len(),
                "C04/num_valid_bits_after_roundtrip",
                "after the round trip {} valid bits, data has {}",
                coder.num_valid_bits(),
                wbits * data.len()
            );
            {
                ctx.label("export:get_binary");
                match coder.get_binary() {
                    Ok(g) => {
                        let v: &Vec<$W> = &*g;
                        vcheck!(*v == data, "C04/get_binary_differs", "get_binary {} vs data {}", hexwords(v), hexwords(&data));
                    }
                    Err(e) => vfail!("C04/get_binary_failed", "get_binary after round trip -> {:?}", e),
                };
            }
            // the guard must have restored the coder
            ctx.label("export:into_binary");
            match coder.into_binary() {
                Ok(v) => vcheck!(v == data, "C04/into_binary_differs", "into_binary {} vs data {}", hexwords(&v), hexwords(&data)),
                Err(e) => vfail!("C04/into_binary_failed", "into_binary after round trip -> {:?}", e),
            }
            Ok(())
        }
    };
}

pub mod c04_rows {
    use super::*;
    for_ans_rows!(c04_row);
}

pub fn c04_bitsback(src: &mut Src, ctx: &mut Ctx) -> CaseResult {
    match src.below(crate::cfg::N_ANS_ROWS as u64) {
        0 => c04_rows::r_u8_u16(src, ctx),
        1 => c04_rows::r_u8_u32(src, ctx),
        2 => c04_rows::r_u8_u64(src, ctx),
        3 => c04_rows::r_u16_u32(src, ctx),
        4 => c04_rows::r_u16_u64(src, ctx),
        5 => c04_rows::r_u32_u64(src, ctx),
        6 => c04_rows::r_u32_u128(src, ctx),
        _ => c04_rows::r_u64_u128(src, ctx),
    }
}

macro_rules! ansmsg_row {
    ($name:ident, $label:literal, $W:ty, $S:ty, $plist:tt) => {
        pub fn $name(src: &mut Src, ctx: &mut Ctx) -> CaseResult {
            type Coder = AnsCoder<$W, $S, Vec<$W>>;
            const PRECS: &[u32] = &precs!($plist);
            let mode = ctx.param;
            ctx.label(concat!("cfg:", $label));
            note!(ctx, "cfg {}", $label);
            let wbits = <$W>::BITS as usize;
            let sbits = <$S>::BITS as usize;
            let mut coder = Coder::new();
            let mut refc = RefAns::new(sbits as u32, wbits as u32);
            // C12 only: in half of the cases the symbols are chosen by a greedy adversary that
            // looks (through the public `state()` / `from_raw_parts`) for the symbol wasting the
            // most bits in the current state, and every table is reused for a run of symbols.
            let adversarial = mode == 12 && src.bool();
            ctx.label_if(adversarial, "adversarial_symbol_choice");
            let max_syms = match (mode == 12, ctx.tier == 0) {
                (true, true) => 1500,
                (true, false) => 20000,
                (false, true) => 80,
                (false, false) => 2000,
            };
            let pop_frac = src.below(256) as usize;
            let mut msg: Vec<(usize, Tab)> = Vec::new();
            let mut cur_sel: u8 = src.below(PRECS.len() as u64) as u8;
            let mut bound_bits = 0f64;
            let mut flushes = 0;
            let export = |c: &Coder| -> Vec<u128> { c.clone().into_compressed().unwrap_infallible().into_iter().map(|x| x as u128).collect() };
            let mut run_left = 0usize;
            let mut run_tab: Option<Tab> = None;
            while msg.len() < max_syms && (!src.is_empty() || run_left > 0) {
                if run_left == 0 && src.ratio(1, 4) {
                    let s = src.below(PRECS.len() as u64) as u8;
                    if s != cur_sel {
                        ctx.label("precision_changed");
                    }
                    cur_sel = s;
                }
                let tab = if run_left > 0 {
                    run_left -= 1;
                    run_tab.clone().expect("harness")
                } else {
                    let t = gen_tab(src, PRECS[cur_sel as usize], cur_sel, 8);
                    if adversarial {
                        run_left = src.below_usize(48);
                        run_tab = Some(t.clone());
                    }
                    t
                };
                let sym = if adversarial {
                    let x0 = coder.state();
                    let l0 = if x0 == 0 { 0.0 } else { (x0 as f64).log2() };
                    let mut best = (f64::MIN, 0usize);
                    for s in 0..tab.n() {
                        let mut twin = AnsCoder::<$W, $S, Vec<$W>>::from_raw_parts(Vec::new(), x0);
                        let r = with_prec!(tab.sel, $plist, |M| twin.encode_symbol(s, M::new(&tab)));
                        if r.is_err() {
                            continue;
                        }
                        let x1 = twin.state();
                        let l1 = if x1 == 0 { 0.0 } else { (x1 as f64).log2() };
                        let waste = (wbits * twin.bulk().len()) as f64 + l1 - l0 - (tab.prec as f64 - (tab.prob(s) as f64).log2());
                        if waste > best.0 {
                            best = (waste, s);
                        }
                    }
                    best.1
                } else {
                    src.below_usize(tab.n())
                };
                note!(ctx, "encode sym={} {}", sym, tab.render());
                let (c, p, prec) = (tab.left(sym), tab.prob(sym), tab.prec);
                ctx.label_if(p == 1, "prob_1_quantum");
                ctx.label_if(p == (1u64 << prec) - 1, "prob_max");
                let len_b = coder.bulk().len();
                let r = with_prec!(tab.sel, $plist, |M| coder.encode_symbol(sym, M::new(&tab)));
                vassume!(ctx, r.is_ok(), "foreign:C01/encode_failed");
                if coder.bulk().len() > len_b {
                    flushes += 1;
                }
                msg.push((sym, tab));
                let n = msg.len();
                if mode == 6 {
                    refc.push(c, p, prec);
                    let got = export(&coder);
                    let exp = refc.export();
                    vcheck!(got == exp, "C06/ans_stream_differs_from_reference", "after {} symbols: coder {} reference {}", n, hexwords(&got), hexwords(&exp));
                    if n % 5 == pop_frac % 5 && !got.is_empty() {
                        // a second session: the stored words are reopened and more symbols appended (documented use of
                        // from_compressed); the stream must stay the reference's
                        ctx.label("reopened_with_from_compressed");
                        let words: Vec<$W> = got.iter().map(|&x| x as $W).collect();
                        match Coder::from_compressed(words) {
                            Ok(c) => coder = c,
                            Err(_) => vfail!("C06/ans_reopen_rejected", "from_compressed rejected the coder's own export {}", hexwords(&got)),
                        }
                        let again = export(&coder);
                        vcheck!(again == exp, "C06/ans_stream_differs_from_reference", "after reopening at {} symbols: coder {} reference {}", n, hexwords(&again), hexwords(&exp));
                    }
                }
                if mode == 12 {
                    let eps = 2f64.powi(-((sbits - wbits) as i32 - prec as i32));
                    bound_bits += prec as f64 - (p as f64).log2() + (1.0 + eps).log2();
                    // the size as the coder reports it (num_bits) in half of the cases, else counted in words
                    // or counted on the temporary get_compressed() view of the live coder, which then goes on encoding
                    let bits = match pop_frac % 3 {
                        1 => coder.num_bits() as f64,
                        2 => {
                            ctx.label("size_counted_on_live_view");
                            // (the raw-binary view is asked for first: it is declined unless the coder happens to be sealed)
                            let _ = coder.get_binary().map(|v| v.len());
                            let view = coder.get_compressed().unwrap_infallible();
                            (view.len() * wbits) as f64
                        }
                        _ => (coder.num_words() * wbits) as f64,
                    };
                    let bound = bound_bits + (sbits + 2 * wbits) as f64 + 1e-9 * n as f64 + 1e-6;
                    vcheck!(bits <= bound, "C12/ans_bits_exceed_bound", "after {} symbols: {} bits > bound {:.3}", n, bits, bound);
                    let wmax = n + sbits / wbits + 2;
                    vcheck!(coder.num_words() <= wmax, "C12/ans_words_exceed_bound", "after {} symbols: {} words > n + S/W + 2 = {}", n, coder.num_words(), wmax);
                    vcheck!(coder.bulk().len() <= len_b + 1, "C12/ans_more_than_one_word_per_symbol", "one encode wrote {} words", coder.bulk().len() - len_b);
                    if bound - bits < wbits as f64 {
                        ctx.label("within_one_word_of_bound");
                    }
                }
            }
            if flushes > 0 {
                ctx.nontrivial();
            }
            if mode == 6 {
                // pop part of the message again: the format also fixes where refills happen
                let k = msg.len() * pop_frac / 255;
                for (i, (sym, tab)) in msg.iter().rev().take(k).enumerate() {
                    let q = refc.peek_quantile(tab.prec);
                    let exp_sym = tab.lookup(q);
                    let r = with_prec!(tab.sel, $plist, |M| coder.decode_symbol(M::new(tab)).ok());
                    vcheck!(r == Some(exp_sym) && exp_sym == *sym, "C06/ans_pop_differs_from_reference", "pop {}: coder {:?}, reference {}, pushed {}", i, r, exp_sym, sym);
                    refc.pop(tab.left(exp_sym), tab.prob(exp_sym), tab.prec);
                    let got = export(&coder);
                    let exp = refc.export();
                    vcheck!(got == exp, "C06/ans_stream_differs_from_reference", "after popping {} symbols: coder {} reference {}", i + 1, hexwords(&got), hexwords(&exp));
                }
                ctx.label_if(k > 0, "popped_against_reference");
            }
            Ok(())
        }
    };
}

/// C18 (ANS part): size / emptiness / exhaustion queries after every step of a push/pop history.
macro_rules! anssize_row {
    ($name:ident, $label:literal, $W:ty, $S:ty, $plist:tt) => {
        pub fn $name(src: &mut Src, ctx: &mut Ctx) -> CaseResult {
            type Coder = AnsCoder<$W, $S, Vec<$W>>;
            const PRECS: &[u32] = &precs!($plist);
            ctx.label(concat!("cfg:", $label));
            note!(ctx, "cfg {}", $label);
            let wbits = <$W>::BITS as usize;
            let start = src.below(3);
            let data: Vec<$W> = gen_words(src, wbits as u32, 6).into_iter().map(|x| x as $W).collect();
            let mut coder: Coder = match start {
                0 => Coder::new(),
                1 => {
                    let mut d = data.clone();
                    if let Some(l) = d.last_mut() {
                        if *l == 0 {
                            *l = 1;
                        }
                    }
                    match Coder::from_compressed(d) {
                        Ok(c) => c,
                        Err(_) => {
                            ctx.discard("foreign:C01/import_rejected");
                            return Ok(());
                        }
                    }
                }
                _ => {
                    let c = Coder::from_binary(data.clone()).unwrap_infallible();
                    note!(ctx, "from_binary({})", hexwords(&data));
                    vcheck!(
                        c.num_valid_bits() == wbits * data.len(),
                        "C18/ans_num_valid_bits_after_from_binary",
                        "from_binary({}) reports {} valid bits, the data has {}",
                        hexwords(&data),
                        c.num_valid_bits(),
                        wbits * data.len()
                    );
                    ctx.label("from_binary");
                    c
                }
            };
            let mut pending: Vec<(usize, Tab)> = Vec::new();
            let max_ops = if ctx.tier == 0 { 60 } else { 400 };
            let mut ops = 0;
            let mut probes_nonempty_bulk = 0;
            loop {
                // ---- probe ---------------------------------------------------------------
                let ex: Vec<$W> = coder.clone().into_compressed().unwrap_infallible();
                vcheck!(coder.num_words() == ex.len(), "C18/ans_num_words", "num_words() = {} but the export {} has {} words (state {:x})", coder.num_words(), hexwords(&ex), ex.len(), coder.state());
                vcheck!(coder.num_bits() == wbits * ex.len(), "C18/ans_num_bits", "num_bits() = {} but the export has {} words", coder.num_bits(), ex.len());
                vcheck!(coder.is_empty() == ex.is_empty(), "C18/ans_is_empty", "is_empty() = {} but the export has {} words", coder.is_empty(), ex.len());
                let mx = <Coder as Decode<1>>::maybe_exhausted(&coder);
                if ex.is_empty() {
                    vcheck!(mx, "C18/ans_not_exhausted_when_empty", "maybe_exhausted() is false on a coder whose export is empty");
                }
                if !coder.bulk().is_empty() {
                    probes_nonempty_bulk += 1;
                    vcheck!(!mx, "C18/ans_exhausted_with_words_left", "maybe_exhausted() is true with {} whole words in bulk", coder.bulk().len());
                }
                if let Some(&top) = ex.last() {
                    // valid bits = everything below the leading one bit of the last word
                    let top_bits = wbits - top.leading_zeros() as usize;
                    let expect = wbits * (ex.len() - 1) + top_bits - 1;
                    vcheck!(coder.num_valid_bits() == expect, "C18/ans_num_valid_bits", "num_valid_bits() = {} but the export {} holds {} payload bits", coder.num_valid_bits(), hexwords(&ex), expect);
                }
                if ops >= max_ops || src.is_empty() {
                    break;
                }
                ops += 1;
                if pending.is_empty() || src.ratio(3, 5) {
                    let sel = src.below(PRECS.len() as u64) as u8;
                    let tab = gen_tab(src, PRECS[sel as usize], sel, 8);
                    let sym = src.below_usize(tab.n());
                    let r = with_prec!(tab.sel, $plist, |M| coder.encode_symbol(sym, M::new(&tab)));
                    vassume!(ctx, r.is_ok(), "foreign:C01/encode_failed");
                    note!(ctx, "encode sym={} {}", sym, tab.render());
                    pending.push((sym, tab));
                } else {
                    let (sym, tab) = pending.pop().expect("checked");
                    let r = with_prec!(tab.sel, $plist, |M| coder.decode_symbol(M::new(&tab)).ok());
                    vassume!(ctx, r == Some(sym), "foreign:C01/decode_mismatch");
                    note!(ctx, "decode -> {}", sym);
                }
            }
            if probes_nonempty_bulk > 0 {
                ctx.nontrivial();
            }
            Ok(())
        }
    };
}

pub mod size_rows {
    use super::*;
    for_ans_rows!(anssize_row);
}

pub fn ans_sizes(src: &mut Src, ctx: &mut Ctx) -> CaseResult {
    match src.below(crate::cfg::N_ANS_ROWS as u64) {
        0 => size_rows::r_u8_u16(src, ctx),
        1 => size_rows::r_u8_u32(src, ctx),
        2 => size_rows::r_u8_u64(src, ctx),
        3 => size_rows::r_u16_u32(src, ctx),
        4 => size_rows::r_u16_u64(src, ctx),
        5 => size_rows::r_u32_u64(src, ctx),
        6 => size_rows::r_u32_u128(src, ctx),
        _ => size_rows::r_u64_u128(src, ctx),
    }
}

pub mod msg_rows {
    use super::*;
    for_ans_rows!(ansmsg_row);
}

pub fn ans_msg(src: &mut Src, ctx: &mut Ctx) -> CaseResult {
    match src.below(crate::cfg::N_ANS_ROWS as u64) {
        0 => msg_rows::r_u8_u16(src, ctx),
        1 => msg_rows::r_u8_u32(src, ctx),
        2 => msg_rows::r_u8_u64(src, ctx),
        3 => msg_rows::r_u16_u32(src, ctx),
        4 => msg_rows::r_u16_u64(src, ctx),
        5 => msg_rows::r_u32_u64(src, ctx),
        6 => msg_rows::r_u32_u128(src, ctx),
        _ => msg_rows::r_u64_u128(src, ctx),
    }
}
