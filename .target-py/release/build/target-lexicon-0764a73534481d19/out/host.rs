
#[allow(unused_imports)]
use crate::Aarch64Architecture::*;
#[allow(unused_imports)]
use crate::ArmArchitecture::*;
#[allow(unused_imports)]
use crate::CustomVendor;
#[allow(unused_imports)]
use crate::Mips32Architecture::*;
#[allow(unused_imports)]
use crate::Mips64Architecture::*;
#[allow(unused_imports)]
use crate::Riscv32Architecture::*;
#[allow(unused_imports)]
use crate::Riscv64Architecture::*;
#[allow(unused_imports)]
use crate::X86_32Architecture::*;

/// The `Triple` of the current host.
pub const HOST: Triple = Triple {
    architecture: Architecture::X86_64,
    vendor: Vendor::Unknown,
    operating_system: OperatingSystem::Linux,
    environment: Environment::Gnu,
    binary_format: BinaryFormat::Elf,
};

impl Architecture {
    /// Return the architecture for the current host.
    pub const fn host() -> Self {
        Architecture::X86_64
    }
}

impl Vendor {
    /// Return the vendor for the current host.
    pub const fn host() -> Self {
        Vendor::Unknown
    }
}

impl OperatingSystem {
    /// Return the operating system for the current host.
    pub const fn host() -> Self {
        OperatingSystem::Linux
    }
}

impl Environment {
    /// Return the environment for the current host.
    pub const fn host() -> Self {
        Environment::Gnu
    }
}

impl BinaryFormat {
    /// Return the binary format for the current host.
    pub const fn host() -> Self {
        BinaryFormat::Elf
    }
}

impl Triple {
    /// Return the triple for the current host.
    pub const fn host() -> Self {
        Self {
            architecture: Architecture::X86_64,
            vendor: Vendor::Unknown,
            operating_system: OperatingSystem::Linux,
            environment: Environment::Gnu,
            binary_format: BinaryFormat::Elf,
        }
    }
}
