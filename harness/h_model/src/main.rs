fn main() {
    vengine::main(&h_model::targets());
}
