//! Harness binary for the chain coder (C13, C14; hostile modes for C09/C10/C20 later).
//!
//! PRECISION is part of the chain coder's type, so every configuration row is a
//! macro-generated enum over the row's precisions; `change` realises
//! `change_precision::<NEW>()` between any two of them.

use constriction::backends::Cursor;
use constriction::stream::chain::{ChainCoder, DecoderFrontendError, EncoderFrontendError};
use constriction::{Pos, Seek};
use constriction::stream::{Decode, Encode};
use constriction::CoderError;
use hcommon::{gen_tab, gen_words, hexwords, Tab, TV};
use vengine::{note, vassume, vcheck, vfail, CaseResult, Ctx, PanicPolicy, Src, Target};

#[derive(Debug, PartialEq, Eq)]
pub enum DecErr {
    OutOfData,
    Other(String),
}
#[derive(Debug, PartialEq, Eq)]
pub enum EncErr {
    OutOfRemainders,
    Impossible,
    Other(String),
}

/// Independent model of how the chain coder cuts PRECISION-bit chunks out of the data: a
/// stack of words plus a stack of left-over bits.  Every bit carries its provenance
/// (word index, bit index), so that C14 can flip exactly the bits of one chunk.
pub struct RefChunker {
    pub w: u32,
    pub p: u32,
    /// remaining words (top = last)
    pub words: Vec<u64>,
    /// left-over bits, top of stack = next bit to be used = least significant bit of the next chunk
    pub bits: Vec<(bool, usize, u32)>,
}

pub struct Chunk {
    pub value: u64,
    /// provenance of bit i of `value`
    pub from: Vec<(usize, u32)>,
}

impl RefChunker {
    /// `None` if the data does not suffice to initialise a coder.
    pub fn new(data: &[u64], w: u32, s: u32, p: u32, binary: bool) -> Option<Self> {
        let mut words = data.to_vec();
        // the remainders head swallows words until it holds at least S-W-P payload bits
        let threshold: u128 = 1u128 << (s - w - p);
        let mut head: u128 = if binary {
            1
        } else {
            match words.pop() {
                Some(x) if x != 0 => x as u128,
                _ => return None,
            }
        };
        while head < threshold {
            head = (head << w) | words.pop()? as u128;
        }
        Some(RefChunker { w, p, words, bits: Vec::new() })
    }
    /// `None` = out of compressed data
    pub fn next(&mut self) -> Option<Chunk> {
        self.next_p(self.p)
    }
    /// the next chunk of `p` bits (the precision may change from chunk to chunk: a change of precision leaves the
    /// words and the left-over bits alone)
    pub fn next_p(&mut self, p: u32) -> Option<Chunk> {
        let w = self.w;
        if p == w || (self.bits.len() as u32) < p {
            let idx = self.words.len().checked_sub(1)?;
            let x = self.words.pop()?;
            let value = if p == 64 { x } else { x & ((1u64 << p) - 1) };
            let from = (0..p).map(|b| (idx, b)).collect();
            // the high W-P bits become left-over bits; the lowest of them is used first
            for b in (p..w).rev() {
                self.bits.push(((x >> b) & 1 == 1, idx, b));
            }
            Some(Chunk { value, from })
        } else {
            let mut value = 0u64;
            let mut from = Vec::new();
            for i in 0..p {
                let (bit, idx, b) = self.bits.pop().expect("checked length");
                value |= (bit as u64) << i;
                from.push((idx, b));
            }
            Some(Chunk { value, from })
        }
    }
}

macro_rules! change_arms {
    ($c:ident, $to:ident, $W:ty, [$(($V:ident, $Pr:ty, $P:literal)),+]) => {{
        let mut __k: u8 = 0;
        let mut __res: Option<Result<C, String>> = None;
        $(
            if __res.is_none() && $to == __k {
                __res = Some(match $c.clone().change_precision::<$P>() {
                    Ok(n) => Ok(C::$V(n)),
                    Err(e) => Err(format!("{:?}", e)),
                });
            }
            __k += 1;
        )+
        let _ = __k;
        __res.expect("harness: precision selector out of range")
    }};
}

macro_rules! chain_row {
    ($name:ident, $label:literal, $W:ty, $S:ty, [$(($V:ident, $Pr:ty, $P:literal)),+], $list:tt) => {
        pub mod $name {
            use super::*;
            type CC<const P: usize> = ChainCoder<$W, $S, Vec<$W>, Vec<$W>, P>;
            #[derive(Clone)]
            pub enum C {
                $($V(CC<$P>)),+
            }
            pub const PRECS: &[u32] = &[$($P),+];
            pub const WBITS: u32 = <$W>::BITS;
            pub const SBITS: u32 = <$S>::BITS;

            fn dec_err<A: core::fmt::Debug, B: core::fmt::Debug>(e: CoderError<DecoderFrontendError, constriction::stream::chain::BackendError<A, B>>) -> DecErr {
                match e {
                    CoderError::Frontend(DecoderFrontendError::OutOfCompressedData) => DecErr::OutOfData,
                    other => DecErr::Other(format!("{:?}", other)),
                }
            }
            fn enc_err<A: core::fmt::Debug, B: core::fmt::Debug>(e: CoderError<EncoderFrontendError, constriction::stream::chain::BackendError<A, B>>) -> EncErr {
                match e {
                    CoderError::Frontend(EncoderFrontendError::OutOfRemainders) => EncErr::OutOfRemainders,
                    CoderError::Frontend(EncoderFrontendError::ImpossibleSymbol) => EncErr::Impossible,
                    other => EncErr::Other(format!("{:?}", other)),
                }
            }

            impl C {
                pub fn sel(&self) -> u8 {
                    let mut k = 0u8;
                    $( if let C::$V(_) = self { return k; } k += 1; )+
                    let _ = k;
                    unreachable!()
                }
                pub fn decode(&mut self, tab: &Tab) -> Result<usize, DecErr> {
                    match self {
                        $(C::$V(c) => c.decode_symbol(TV::<$Pr, $P>::new(tab)).map_err(dec_err),)+
                    }
                }
                pub fn encode(&mut self, sym: usize, tab: &Tab) -> Result<(), EncErr> {
                    match self {
                        $(C::$V(c) => c.encode_symbol(sym, TV::<$Pr, $P>::new(tab)).map_err(enc_err),)+
                    }
                }
                /// batch forms; `items` in decoding order (the `_reverse` methods reverse it themselves)
                pub fn encode_batch(&mut self, items: &[(usize, Tab)], form: u8) -> Result<(), EncErr> {
                    use constriction::stream::TryCodingError;
                    match self {
                        $(C::$V(c) => match form {
                            1 => c.encode_symbols_reverse(items.iter().map(|(s, t)| (*s, TV::<$Pr, $P>::new(t)))).map_err(enc_err),
                            2 => c
                                .try_encode_symbols_reverse(items.iter().map(|(s, t)| Ok::<_, core::convert::Infallible>((*s, TV::<$Pr, $P>::new(t)))))
                                .map_err(|e| match e {
                                    TryCodingError::CodingError(e) => enc_err(e),
                                    TryCodingError::InvalidEntropyModel(x) => match x {},
                                }),
                            3 if items.iter().all(|(_, t)| *t == items[0].1) => c.encode_iid_symbols_reverse(items.iter().map(|(s, _)| *s), TV::<$Pr, $P>::new(&items[0].1)).map_err(enc_err),
                            _ => c.encode_symbols(items.iter().rev().map(|(s, t)| (*s, TV::<$Pr, $P>::new(t)))).map_err(enc_err),
                        },)+
                    }
                }
                /// `change_precision` to the row's precision number `to` (the coder is cloned
                /// first because the library consumes it even when the change fails)
                pub fn change(&self, to: u8) -> Result<C, String> {
                    match self {
                        $(C::$V(c) => change_arms!(c, to, $W, $list),)+
                    }
                }
                pub fn from_data(data: Vec<$W>, binary: bool, sel: u8) -> Result<C, String> {
                    let mut k = 0u8;
                    $(
                        if sel == k {
                            let r = if binary { CC::<$P>::from_binary(data) } else { CC::<$P>::from_compressed(data) };
                            return match r {
                                Ok(c) => Ok(C::$V(c)),
                                Err(CoderError::Frontend(_)) => Err("rejected".into()),
                                Err(CoderError::Backend(e)) => match e {},
                            };
                        }
                        k += 1;
                    )+
                    let _ = k;
                    unreachable!()
                }
                pub fn from_remainders(rem: Vec<$W>, sel: u8) -> Result<C, String> {
                    let mut k = 0u8;
                    $(
                        if sel == k {
                            return match CC::<$P>::from_remainders(rem) {
                                Ok(c) => Ok(C::$V(c)),
                                Err(CoderError::Frontend(_)) => Err("rejected".into()),
                                Err(CoderError::Backend(e)) => match e {},
                            };
                        }
                        k += 1;
                    )+
                    let _ = k;
                    unreachable!()
                }
                /// (prefix = unused part of the original data, suffix = remainders)
                pub fn into_remainders(self) -> (Vec<$W>, Vec<$W>) {
                    match self {
                        $(C::$V(c) => match c.into_remainders() { Ok(x) => x, Err(e) => match e {} },)+
                    }
                }
                /// (remainders backend, compressed backend)
                pub fn finish(self, binary: bool) -> Result<(Vec<$W>, Vec<$W>), String> {
                    match self {
                        $(C::$V(c) => {
                            let whole = c.is_whole();
                            let r = if binary { c.into_binary() } else { c.into_compressed() };
                            match r {
                                Ok(x) => Ok(x),
                                Err(CoderError::Frontend(_)) => Err(format!("frontend error (is_whole={})", whole)),
                                Err(CoderError::Backend(e)) => match e {},
                            }
                        })+
                    }
                }
                pub fn is_whole(&self) -> bool {
                    match self {
                        $(C::$V(c) => c.is_whole(),)+
                    }
                }
            }

            /// C14 through `Pos` / `Seek`: a chain coder over a seekable compressed backend is jumped back to
            /// snapshots taken before symbol j; what it decodes from there must be what the straight pass decoded
            /// at the same positions (symbol i depends on chunk i and model i only, not on the coder's past).
            /// `script` = (fraction selecting j among the positions reached so far, number of symbols to decode).
            /// Ok(None) = consistent; Ok(Some(detail)) = violation; Err = decode error of another property.
            pub fn seek_check(data: Vec<$W>, binary: bool, sel: u8, tabs: &[Tab], script: &[(u16, usize)]) -> Result<Option<String>, String> {
                let mut k = 0u8;
                $(
                    if sel == k {
                        type SC = ChainCoder<$W, $S, Cursor<$W, Vec<$W>>, Vec<$W>, $P>;
                        let cur = Cursor::new_at_write_end(data);
                        let r = if binary { SC::from_binary(cur) } else { SC::from_compressed(cur) };
                        let mut c = match r {
                            Ok(c) => c,
                            Err(_) => return Ok(None),
                        };
                        let mut pos = Vec::new();
                        let mut syms = Vec::new();
                        let mut out_at = None;
                        for (i, t) in tabs.iter().enumerate() {
                            pos.push(c.pos());
                            match c.decode_symbol(TV::<$Pr, $P>::new(t)) {
                                Ok(s) => syms.push(s),
                                Err(CoderError::Frontend(DecoderFrontendError::OutOfCompressedData)) => {
                                    out_at = Some(i);
                                    break;
                                }
                                Err(e) => return Err(format!("{:?}", e)),
                            }
                        }
                        let mut at = pos.len().saturating_sub(1); // index of the symbol the coder is about to decode (or failed on)
                        if out_at.is_none() {
                            at = tabs.len();
                        }
                        for &(frac, m) in script {
                            if pos.is_empty() {
                                break;
                            }
                            // only backward jumps: the remainders live on a Vec, whose seek truncates
                            let reach = at.min(pos.len() - 1);
                            let j = (frac as usize * (reach + 1)) >> 16;
                            if c.seek(pos[j]).is_err() {
                                return Ok(Some(format!("seek back to the snapshot taken before symbol {} (coder at symbol {}) was refused", j, at)));
                            }
                            at = j;
                            for i in j..(j + m).min(tabs.len()) {
                                match c.decode_symbol(TV::<$Pr, $P>::new(&tabs[i])) {
                                    Ok(s) => {
                                        if i >= syms.len() || syms[i] != s {
                                            return Ok(Some(format!(
                                                "after seeking back to symbol {}: symbol {} decodes as {} but the straight pass gave {:?} (out of data at {:?})",
                                                j, i, s, syms.get(i), out_at
                                            )));
                                        }
                                        at = i + 1;
                                    }
                                    Err(CoderError::Frontend(DecoderFrontendError::OutOfCompressedData)) => {
                                        if out_at != Some(i) {
                                            return Ok(Some(format!("after seeking back to symbol {}: out of data at symbol {} but the straight pass ran out at {:?}", j, i, out_at)));
                                        }
                                        at = i;
                                        break;
                                    }
                                    Err(e) => return Err(format!("{:?}", e)),
                                }
                            }
                        }
                        return Ok(None);
                    }
                    k += 1;
                )+
                let _ = k;
                unreachable!()
            }

            enum Step {
                Dec(usize, Tab),
                Change(u8, u8), // from, to
            }

            /// C13: decode, export/re-import remainders, re-encode in reverse -> original data.
            pub fn c13(src: &mut Src, ctx: &mut Ctx) -> CaseResult {
                ctx.label(concat!("cfg:", $label));
                note!(ctx, "cfg {} (chain coder)", $label);
                let binary = src.bool();
                let way = src.below(3);
                let extra_encode = src.ratio(1, 6);
                let mut data: Vec<$W> = gen_words(src, WBITS, if ctx.tier == 0 { 24 } else { 200 }).into_iter().map(|x| x as $W).collect();
                if src.ratio(3, 4) {
                    // enough words on top for the heads in most cases
                    for _ in 0..(SBITS / WBITS) {
                        data.push(src.wordish(WBITS) as $W);
                    }
                }
                if !binary {
                    if data.is_empty() {
                        data.push(1);
                    }
                    let l = data.len() - 1;
                    if data[l] == 0 {
                        data[l] = 1 + (src.wordish(WBITS) as $W) / 2;
                    }
                }
                let sel0 = src.below(PRECS.len() as u64) as u8;
                note!(ctx, "{}({}) at P={}", if binary { "from_binary" } else { "from_compressed" }, hexwords(&data), PRECS[sel0 as usize]);
                ctx.label(if binary { "start:from_binary" } else { "start:from_compressed" });
                let mut coder = match C::from_data(data.clone(), binary, sel0) {
                    Ok(c) => c,
                    Err(_) => {
                        // too little data for the heads: allowed ("reported as an error")
                        ctx.label("constructor_out_of_data");
                        return Ok(());
                    }
                };
                vcheck!(coder.is_whole(), "C13/fresh_coder_not_whole", "a fresh coder reports !is_whole()");
                let max_steps = if ctx.tier == 0 { 40 } else { 400 };
                let mut steps: Vec<Step> = Vec::new();
                let mut out_of_data = false;
                let mut n_dec = 0;
                while steps.len() < max_steps && !src.is_empty() {
                    if src.ratio(1, 5) && PRECS.len() > 1 {
                        let from = coder.sel();
                        let to = src.below(PRECS.len() as u64) as u8;
                        if to == from {
                            continue;
                        }
                        match coder.change(to) {
                            Ok(c) => {
                                note!(ctx, "change precision {} -> {}", PRECS[from as usize], PRECS[to as usize]);
                                ctx.label(if PRECS[to as usize] > PRECS[from as usize] { "precision_increased" } else { "precision_decreased" });
                                coder = c;
                                steps.push(Step::Change(from, to));
                            }
                            Err(e) => {
                                // only a decrease may fail, and only for lack of remainders
                                vcheck!(
                                    PRECS[to as usize] < PRECS[from as usize] && e.contains("OutOfRemainders"),
                                    if ctx.param == 10 { "C10/undocumented_change_precision_error" } else { "C13/change_precision_failed" },
                                    "change_precision {} -> {} failed with {}",
                                    PRECS[from as usize],
                                    PRECS[to as usize],
                                    e
                                );
                                ctx.label("precision_decrease_out_of_remainders");
                            }
                        }
                        continue;
                    }
                    let sel = coder.sel();
                    // sometimes the same model again (i.i.d. runs for the batch forms)
                    let tab = match steps.last() {
                        Some(Step::Dec(_, prev)) if prev.sel == sel && src.ratio(1, 4) => prev.clone(),
                        _ => gen_tab(src, PRECS[sel as usize], sel, 8),
                    };
                    match coder.decode(&tab) {
                        Ok(s) => {
                            if ctx.param == 10 {
                                vcheck!(s < tab.n(), "C10/decoded_symbol_outside_support", "chain decode at P={} returned {} which is not a symbol of {}", PRECS[sel as usize], s, tab.render());
                            }
                            vassume!(ctx, s < tab.n(), "foreign:C10/chain_symbol_outside_model");
                            note!(ctx, "decode -> {} with {}", s, tab.render());
                            steps.push(Step::Dec(s, tab));
                            n_dec += 1;
                        }
                        Err(DecErr::OutOfData) => {
                            note!(ctx, "decode -> OutOfCompressedData (continuing with the symbols obtained)");
                            ctx.label("ran_out_of_compressed_data");
                            out_of_data = true;
                            if src.bool() {
                                break;
                            }
                        }
                        Err(DecErr::Other(e)) => {
                            if ctx.param == 10 {
                                vfail!("C10/undocumented_decoder_error", "chain decode_symbol -> {}", e)
                            }
                            vfail!("C13/decode_error", "decode_symbol -> {}", e)
                        }
                    }
                }
                let _ = out_of_data;
                if ctx.param == 10 {
                    // C10 view of the same histories: totality and membership while the precision
                    // changes between symbols; the restoring half belongs to C13
                    if n_dec >= 2 && steps.iter().any(|s| matches!(s, Step::Change(..))) {
                        ctx.nontrivial();
                    }
                    return Ok(());
                }
                if n_dec >= 2 {
                    ctx.nontrivial();
                }
                // ---- export / re-import in one of the three documented ways ---------------
                let final_sel = coder.sel();
                let (mut coder, kept_prefix): (C, Vec<$W>) = match way {
                    0 => {
                        ctx.label("way:same_coder");
                        (coder, Vec::new())
                    }
                    1 => {
                        ctx.label("way:concatenated_remainders");
                        let (prefix, suffix) = coder.into_remainders();
                        note!(ctx, "into_remainders -> prefix {} suffix {}", hexwords(&prefix), hexwords(&suffix));
                        let mut cat = prefix;
                        cat.extend_from_slice(&suffix);
                        match C::from_remainders(cat.clone(), final_sel) {
                            Ok(c) => (c, Vec::new()),
                            Err(e) => vfail!("C13/from_remainders_rejected", "from_remainders(prefix ++ suffix = {}) -> {}", hexwords(&cat), e),
                        }
                    }
                    _ => {
                        ctx.label("way:suffix_only");
                        let (prefix, suffix) = coder.into_remainders();
                        note!(ctx, "into_remainders -> prefix {} suffix {}", hexwords(&prefix), hexwords(&suffix));
                        match C::from_remainders(suffix.clone(), final_sel) {
                            Ok(c) => (c, prefix),
                            Err(e) => vfail!("C13/from_remainders_rejected", "from_remainders(suffix = {}) -> {}", hexwords(&suffix), e),
                        }
                    }
                };
                // ---- encode back in reverse, undoing the precision changes -----------------
                // (per symbol, or every run of symbols between two precision changes through one of the
                // batch forms; the form is a function of choices already made)
                let form = ((n_dec + way as usize + data.len()) % 4) as u8;
                ctx.label(["reencode:per_symbol", "reencode:encode_symbols_reverse", "reencode:try_encode_symbols_reverse", "reencode:encode_symbols(rev)_or_iid_reverse"][form as usize]);
                let mut i = steps.len();
                while i > 0 {
                    match &steps[i - 1] {
                        Step::Dec(s, tab) if form == 0 => {
                            match coder.encode(*s, tab) {
                                Ok(()) => {}
                                Err(e) => vfail!("C13/reencode_failed", "re-encoding step {} (symbol {} with {}) -> {:?}", i - 1, s, tab.render(), e),
                            }
                            i -= 1;
                        }
                        Step::Dec(..) => {
                            let end = i;
                            let mut start = i;
                            while start > 0 && matches!(steps[start - 1], Step::Dec(..)) {
                                start -= 1;
                            }
                            let items: Vec<(usize, Tab)> = steps[start..end]
                                .iter()
                                .map(|st| match st {
                                    Step::Dec(s, t) => (*s, t.clone()),
                                    Step::Change(..) => unreachable!(),
                                })
                                .collect();
                            match coder.encode_batch(&items, form) {
                                Ok(()) => {}
                                Err(e) => vfail!("C13/reencode_failed", "re-encoding steps {}..{} through batch form {} -> {:?}", start, end, form, e),
                            }
                            i = start;
                        }
                        Step::Change(from, _to) => {
                            match coder.change(*from) {
                                Ok(c) => coder = c,
                                Err(e) => vfail!("C13/undo_precision_change_failed", "undoing the precision change of step {} failed: {}", i - 1, e),
                            }
                            i -= 1;
                        }
                    }
                }
                if extra_encode {
                    // one symbol too many: either OutOfRemainders (coder untouched) or a
                    // consistent push that pops again
                    let sel = coder.sel();
                    let tab = gen_tab(src, PRECS[sel as usize], sel, 8);
                    let s = src.below_usize(tab.n());
                    match coder.encode(s, &tab) {
                        Err(EncErr::OutOfRemainders) => ctx.label("extra_encode:out_of_remainders"),
                        Ok(()) => {
                            ctx.label("extra_encode:accepted");
                            let d = coder.decode(&tab);
                            vcheck!(d == Ok(s), "C13/extra_encode_not_undone_by_decode", "encoded {} then decoded {:?}", s, d);
                        }
                        Err(e) => vfail!("C13/extra_encode_error", "{:?}", e),
                    }
                }
                if extra_encode {
                    // several symbols too many, on copies of the coder: a batch form must report an error exactly when the
                    // per-symbol loop runs into one ("running out of ... remainders is reported as an error, never as
                    // wrong output"), and must leave the same coder behind when there is none
                    let sel = coder.sel();
                    let k = src.range_usize(2, 5);
                    let items: Vec<(usize, Tab)> = (0..k)
                        .map(|_| {
                            let t = gen_tab(src, PRECS[sel as usize], sel, 8);
                            (src.below_usize(t.n()), t)
                        })
                        .collect();
                    let bform = 1 + src.below(3) as u8;
                    let mut by_loop = coder.clone();
                    let mut loop_err = None;
                    // (the `_reverse` batch forms and `encode_symbols` over the reversed items all encode the last item first)
                    for (idx, (s, t)) in items.iter().enumerate().rev() {
                        if let Err(e) = by_loop.encode(*s, t) {
                            loop_err = Some((idx, e));
                            break;
                        }
                    }
                    let mut by_batch = coder.clone();
                    let r = by_batch.encode_batch(&items, bform);
                    ctx.label(if loop_err.is_some() { "surplus_batch:loop_ran_out" } else { "surplus_batch:loop_succeeded" });
                    vcheck!(
                        r.is_err() == loop_err.is_some(),
                        "C13/batch_encode_outcome_differs_from_loop",
                        "{} surplus symbols through batch form {}: {:?}, but the per-symbol loop: {:?}",
                        k,
                        bform,
                        r,
                        loop_err
                    );
                    if r.is_ok() {
                        let a = by_loop.finish(binary);
                        let b = by_batch.finish(binary);
                        vcheck!(a == b, "C13/batch_encode_differs_from_loop", "{} surplus symbols through batch form {} left {:?}, the per-symbol loop {:?}", k, bform, b, a);
                    }
                }
                vcheck!(coder.is_whole(), "C13/not_whole_after_reencoding", "after re-encoding all symbols the coder is not whole");
                match coder.finish(binary) {
                    Ok((rem, comp)) => {
                        let mut rec = kept_prefix;
                        rec.extend_from_slice(&rem);
                        rec.extend_from_slice(&comp);
                        vcheck!(
                            rec == data,
                            "C13/data_not_restored",
                            "way {}: reconstructed {} (remainders part {}, compressed part {}) original {}",
                            way,
                            hexwords(&rec),
                            hexwords(&rem),
                            hexwords(&comp),
                            hexwords(&data)
                        );
                    }
                    Err(e) => vfail!("C13/final_export_failed", "{} after re-encoding -> {}", if binary { "into_binary" } else { "into_compressed" }, e),
                }
                Ok(())
            }

            /// C14: symbol i is what model i assigns to chunk i; model replacement and bit
            /// flips inside one chunk are local.
            pub fn c14(src: &mut Src, ctx: &mut Ctx) -> CaseResult {
                ctx.label(concat!("cfg:", $label));
                note!(ctx, "cfg {} (chain coder)", $label);
                let binary = src.bool();
                let sel = src.below(PRECS.len() as u64) as u8;
                let p = PRECS[sel as usize];
                let mut data: Vec<$W> = gen_words(src, WBITS, if ctx.tier == 0 { 16 } else { 120 }).into_iter().map(|x| x as $W).collect();
                if src.ratio(3, 4) {
                    for _ in 0..(SBITS / WBITS) {
                        data.push(src.wordish(WBITS) as $W);
                    }
                }
                if !binary {
                    if data.is_empty() {
                        data.push(1);
                    }
                    let l = data.len() - 1;
                    if data[l] == 0 {
                        data[l] = 1;
                    }
                }
                let n = match src.below(3) { 0 => src.below_usize(6), _ => src.below_usize(if ctx.tier == 0 { 40 } else { 400 }) };
                let tabs: Vec<Tab> = (0..n).map(|_| gen_tab(src, p, sel, 8)).collect();
                note!(ctx, "{}({}) P={} decode {} symbols", if binary { "from_binary" } else { "from_compressed" }, hexwords(&data), p, n);

                let run = |data: &[$W], tabs: &[Tab]| -> Result<(Vec<usize>, Option<usize>), String> {
                    // returns decoded symbols and the index at which out-of-data first appeared
                    let mut c = match C::from_data(data.to_vec(), binary, sel) {
                        Ok(c) => c,
                        Err(_) => return Ok((Vec::new(), Some(0))),
                    };
                    let mut syms = Vec::new();
                    for (i, t) in tabs.iter().enumerate() {
                        match c.decode(t) {
                            Ok(s) => syms.push(s),
                            Err(DecErr::OutOfData) => {
                                // there is no further chunk: the coder must stay out of data (a failed attempt must not
                                // conjure up bits for later ones)
                                for k in 1..=4usize {
                                    let t2 = &tabs[(i + k) % tabs.len()];
                                    match c.decode(t2) {
                                        Err(DecErr::OutOfData) => {}
                                        Ok(s) => return Err(format!("PHANTOM: out of data at symbol {i}, but attempt {k} after that returned symbol {s}")),
                                        Err(DecErr::Other(e)) => return Err(e),
                                    }
                                }
                                return Ok((syms, Some(i)));
                            }
                            Err(DecErr::Other(e)) => return Err(e),
                        }
                    }
                    Ok((syms, None))
                };

                // ---- oracle 1: independent chunker ---------------------------------------
                let d64: Vec<u64> = data.iter().map(|&x| x as u64).collect();
                let (syms, out_at) = match run(&data, &tabs) {
                    Ok(x) => x,
                    Err(e) if e.starts_with("PHANTOM") => return Err(vengine::Fail::new("C14/symbol_decoded_after_out_of_data", e)),
                    Err(_) => { ctx.discard("foreign:C13/decode_error"); return Ok(()); }
                };
                let mut chunks: Vec<Chunk> = Vec::new();
                let mut ref_out_at = None;
                match RefChunker::new(&d64, WBITS, SBITS, p, binary) {
                    None => ref_out_at = Some(0),
                    Some(mut rc) => {
                        for i in 0..n {
                            match rc.next() {
                                Some(c) => chunks.push(c),
                                None => {
                                    ref_out_at = Some(i);
                                    break;
                                }
                            }
                        }
                    }
                }
                vcheck!(
                    out_at == ref_out_at,
                    "C14/out_of_data_index",
                    "coder ran out of data at {:?}, the chunk model at {:?} (data {}, P={})",
                    out_at,
                    ref_out_at,
                    hexwords(&data),
                    p
                );
                for (i, (s, c)) in syms.iter().zip(&chunks).enumerate() {
                    let exp = tabs[i].lookup(c.value);
                    vcheck!(
                        *s == exp,
                        "C14/symbol_is_not_model_of_chunk",
                        "symbol {} is {} but model {} assigns {} to chunk {} = {:#x}",
                        i,
                        s,
                        tabs[i].render(),
                        exp,
                        i,
                        c.value
                    );
                }
                if syms.len() >= 2 {
                    ctx.nontrivial();
                }
                ctx.label_if(out_at.is_some(), "ran_out_of_compressed_data");
                if syms.is_empty() {
                    return Ok(());
                }
                // ---- oracle 2a: replace the model at position j ---------------------------
                let j = src.below_usize(syms.len());
                let mut tabs2 = tabs.clone();
                tabs2[j] = gen_tab(src, p, sel, 8);
                let (syms2, out2) = match run(&data, &tabs2) {
                    Ok(x) => x,
                    Err(_) => { ctx.discard("foreign:C13/decode_error"); return Ok(()); }
                };
                vcheck!(out2 == out_at, "C14/model_change_moved_out_of_data", "replacing model {} moved the out-of-data index from {:?} to {:?}", j, out_at, out2);
                for i in 0..syms.len() {
                    if i != j {
                        vcheck!(
                            syms2.get(i) == Some(&syms[i]),
                            "C14/model_change_not_local",
                            "replacing the model at position {} changed symbol {} from {} to {:?}",
                            j,
                            i,
                            syms[i],
                            syms2.get(i)
                        );
                    }
                }
                ctx.label_if(syms2.get(j) != Some(&syms[j]), "model_change_changed_symbol_j");
                // ---- oracle 2b: flip bits inside chunk j ----------------------------------
                let j = src.below_usize(syms.len());
                let mask = src.bits(p).max(1);
                let mut data3 = data.clone();
                for (b, &(widx, bit)) in chunks[j].from.iter().enumerate() {
                    if (mask >> b) & 1 == 1 {
                        data3[widx] ^= (1 as $W) << bit;
                    }
                }
                let (syms3, out3) = match run(&data3, &tabs) {
                    Ok(x) => x,
                    Err(_) => { ctx.discard("foreign:C13/decode_error"); return Ok(()); }
                };
                vcheck!(out3 == out_at, "C14/bit_flip_moved_out_of_data", "flipping bits of chunk {} moved the out-of-data index from {:?} to {:?}", j, out_at, out3);
                for i in 0..syms.len() {
                    if i != j {
                        vcheck!(
                            syms3.get(i) == Some(&syms[i]),
                            "C14/bit_flip_not_local",
                            "flipping bits {:#x} of chunk {} changed symbol {} from {} to {:?} (data {} -> {})",
                            mask,
                            j,
                            i,
                            syms[i],
                            syms3.get(i),
                            hexwords(&data),
                            hexwords(&data3)
                        );
                    }
                }
                ctx.label_if(syms3.get(j) != Some(&syms[j]), "bit_flip_changed_symbol_j");
                // ---- oracle 3: the coder's past does not matter (Pos / Seek) ----------------
                let k = src.below_usize(5);
                let script: Vec<(u16, usize)> = (0..k).map(|_| (src.below(65536) as u16, src.below_usize(12))).collect();
                if !script.is_empty() {
                    match seek_check(data.clone(), binary, sel, &tabs, &script) {
                        Ok(None) => ctx.label("seek_script_consistent"),
                        Ok(Some(detail)) => return Err(vengine::Fail::new("C14/decoding_depends_on_the_coders_past", format!("{} (script {:?})", detail, script))),
                        Err(_) => ctx.discard("foreign:C13/decode_error"),
                    }
                }
                // ---- oracle 4: the precision is raised between symbols ------------------------
                // (raising the precision of a decoder writes to the remainders only; the quantiles still come from
                // the compressed bits alone, so replacing one model must stay local across the change)
                if src.ratio(1, 2) {
                    let mut order: Vec<u8> = (0..PRECS.len() as u8).collect();
                    order.sort_by_key(|&k| PRECS[k as usize]);
                    let start_rank = src.below_usize(order.len());
                    let m = src.below_usize(if ctx.tier == 0 { 24 } else { 120 });
                    let mut rank = start_rank;
                    let mut steps: Vec<(Option<u8>, Tab)> = Vec::new();
                    let mut sel_at: Vec<u8> = Vec::new();
                    let mut raised = false;
                    for _ in 0..m {
                        let up = if rank + 1 < order.len() && src.ratio(1, 4) {
                            rank += 1 + src.below_usize(order.len() - rank - 1);
                            raised = true;
                            Some(order[rank])
                        } else {
                            None
                        };
                        let sel_now = order[rank];
                        sel_at.push(sel_now);
                        steps.push((up, gen_tab(src, PRECS[sel_now as usize], sel_now, 8)));
                    }
                    let first_sel = order[start_rank];
                    let run4 = |steps: &[(Option<u8>, Tab)]| -> Result<(Vec<usize>, Option<usize>), String> {
                        let mut c = match C::from_data(data.to_vec(), binary, first_sel) {
                            Ok(c) => c,
                            Err(_) => return Ok((Vec::new(), Some(0))),
                        };
                        let mut syms = Vec::new();
                        for (i, (up, t)) in steps.iter().enumerate() {
                            if let Some(to) = up {
                                c = c.change(*to)?;
                            }
                            match c.decode(t) {
                                Ok(s) => syms.push(s),
                                Err(DecErr::OutOfData) => return Ok((syms, Some(i))),
                                Err(DecErr::Other(e)) => return Err(e),
                            }
                        }
                        Ok((syms, None))
                    };
                    let (s4, o4) = match run4(&steps) {
                        Ok(x) => x,
                        Err(_) => { ctx.discard("foreign:C13/decode_error"); return Ok(()); }
                    };
                    if !s4.is_empty() {
                        let j = src.below_usize(s4.len());
                        let mut steps2 = steps.clone();
                        steps2[j].1 = gen_tab(src, PRECS[sel_at[j] as usize], sel_at[j], 8);
                        let (s5, o5) = match run4(&steps2) {
                            Ok(x) => x,
                            Err(_) => { ctx.discard("foreign:C13/decode_error"); return Ok(()); }
                        };
                        let sched: Vec<Option<u32>> = steps.iter().map(|(u, _)| u.map(|k| PRECS[k as usize])).collect();
                        vcheck!(o5 == o4, "C14/model_change_moved_out_of_data", "precision raised between symbols (start P={}, schedule {:?}): replacing model {} moved the out-of-data index from {:?} to {:?}", PRECS[first_sel as usize], sched, j, o4, o5);
                        for i in 0..s4.len() {
                            if i != j {
                                vcheck!(s5.get(i) == Some(&s4[i]), "C14/model_change_not_local", "precision raised between symbols (start P={}, schedule {:?}): replacing the model at position {} changed symbol {} from {} to {:?}", PRECS[first_sel as usize], sched, j, i, s4[i], s5.get(i));
                            }
                        }
                        ctx.label_if(raised, "model_replaced_with_precision_raised_between_symbols");
                    }
                }
                // ---- oracle 5: the chunk model across precision changes in both directions -------------
                // (a change of precision re-arranges the remainders side only: the i-th symbol is still what its model assigns
                // to the next P_i bits of the data. A decrease that runs out of remainders ends the schedule.)
                if src.ratio(1, 2) {
                    let m = src.below_usize(if ctx.tier == 0 { 24 } else { 120 });
                    let first_sel = src.below(PRECS.len() as u64) as u8;
                    let mut cur = first_sel;
                    let mut steps: Vec<(Option<u8>, Tab)> = Vec::new();
                    for _ in 0..m {
                        let ch = if src.ratio(1, 3) {
                            let to = src.below(PRECS.len() as u64) as u8;
                            if to != cur { cur = to; Some(to) } else { None }
                        } else {
                            None
                        };
                        steps.push((ch, gen_tab(src, PRECS[cur as usize], cur, 8)));
                    }
                    if let (Ok(mut c), Some(mut rc)) = (C::from_data(data.to_vec(), binary, first_sel), RefChunker::new(&d64, WBITS, SBITS, PRECS[first_sel as usize], binary)) {
                        let mut psel = first_sel;
                        let mut changed = false;
                        for (i, (ch, t)) in steps.iter().enumerate() {
                            if let Some(to) = ch {
                                match c.change(*to) {
                                    Ok(n) => c = n,
                                    Err(_) => {
                                        ctx.label("precision_change_refused(out_of_remainders)");
                                        break;
                                    }
                                }
                                psel = *to;
                                changed = true;
                            }
                            let exp = rc.next_p(PRECS[psel as usize]);
                            match (c.decode(t), exp) {
                                (Ok(s), Some(chunk)) => {
                                    let want = t.lookup(chunk.value);
                                    vcheck!(s == want, "C14/symbol_is_not_model_of_chunk", "precision changes between symbols (start P={}): symbol {} at P={} is {} but model {} assigns {} to the next {} bits {:#x}", PRECS[first_sel as usize], i, PRECS[psel as usize], s, t.render(), want, PRECS[psel as usize], chunk.value);
                                }
                                (Err(DecErr::OutOfData), None) => break,
                                (Ok(s), None) => vfail!("C14/out_of_data_index", "precision changes between symbols: the coder decoded symbol {} = {} although the data has no further {} bits", i, s, PRECS[psel as usize]),
                                (Err(DecErr::OutOfData), Some(_)) => vfail!("C14/out_of_data_index", "precision changes between symbols: the coder ran out of data at symbol {} (P={}) although the data holds a further chunk", i, PRECS[psel as usize]),
                                (Err(DecErr::Other(_)), _) => {
                                    ctx.discard("foreign:C13/decode_error");
                                    return Ok(());
                                }
                            }
                        }
                        ctx.label_if(changed, "chunk_model_across_precision_changes");
                    }
                }
                Ok(())
            }
        }
    };
}

chain_row!(r_u8_u16, "u8/u16", u8, u16, [(A, u8, 8), (B, u8, 3), (C1, u8, 1), (D, u8, 7)], [(A, u8, 8), (B, u8, 3), (C1, u8, 1), (D, u8, 7)]);
chain_row!(r_u8_u32, "u8/u32", u8, u32, [(A, u8, 8), (B, u8, 5), (C1, u8, 1)], [(A, u8, 8), (B, u8, 5), (C1, u8, 1)]);
chain_row!(r_u8_u64, "u8/u64", u8, u64, [(A, u8, 8), (B, u8, 4)], [(A, u8, 8), (B, u8, 4)]);
chain_row!(r_u16_u32, "u16/u32", u16, u32, [(A, u16, 16), (B, u16, 12), (C1, u8, 7), (D, u16, 15)], [(A, u16, 16), (B, u16, 12), (C1, u8, 7), (D, u16, 15)]);
chain_row!(r_u16_u64, "u16/u64", u16, u64, [(A, u16, 16), (B, u8, 8), (C1, u16, 11)], [(A, u16, 16), (B, u8, 8), (C1, u16, 11)]);
chain_row!(r_u32_u64, "u32/u64", u32, u64, [(A, u32, 32), (B, u32, 24), (C1, u16, 12), (D, u8, 8), (E, u32, 31)], [(A, u32, 32), (B, u32, 24), (C1, u16, 12), (D, u8, 8), (E, u32, 31)]);
chain_row!(r_u32_u128, "u32/u128", u32, u128, [(A, u32, 32), (B, u16, 9)], [(A, u32, 32), (B, u16, 9)]);
chain_row!(r_u64_u128, "u64/u128", u64, u128, [(A, u32, 24), (B, u8, 2)], [(A, u32, 24), (B, u8, 2)]);

macro_rules! dispatch {
    ($f:ident, $src:expr, $ctx:expr) => {
        match $src.below(8) {
            0 => r_u8_u16::$f($src, $ctx),
            1 => r_u8_u32::$f($src, $ctx),
            2 => r_u8_u64::$f($src, $ctx),
            3 => r_u16_u32::$f($src, $ctx),
            4 => r_u16_u64::$f($src, $ctx),
            5 => r_u32_u64::$f($src, $ctx),
            6 => r_u32_u128::$f($src, $ctx),
            _ => r_u64_u128::$f($src, $ctx),
        }
    };
}

fn c13_chain(src: &mut Src, ctx: &mut Ctx) -> CaseResult {
    dispatch!(c13, src, ctx)
}
fn c14_chain(src: &mut Src, ctx: &mut Ctx) -> CaseResult {
    dispatch!(c14, src, ctx)
}

/// All targets of this harness crate (used by the worker binary and by the libFuzzer crate).
pub fn targets() -> Vec<Target> {
    vec![
        Target { name: "c13_chain", props: "C13", policy: PanicPolicy::AllViolations, max_len: 1024, run: c13_chain },
        Target { name: "c14_chain", props: "C14", policy: PanicPolicy::AllViolations, max_len: 1024, run: c14_chain },
    ]
}
