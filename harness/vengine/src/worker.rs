//! Command line shared by all harness binaries.  The Python driver `/verif/check` talks to
//! it; nothing here decides pass/fail of a *property* – it only executes cases.
//!
//! ```text
//! <bin> list
//! <bin> worker --target T --seed S --start A --count N --out FILE [--tier t] [--param p]
//! <bin> replay --target T --hex H [--tier t] [--param p] [--quiet]
//! <bin> gen --target T --seed S --index I        (prints the hex bytes of a generated case)
//! <bin> shrink --target T --hex H --sig SIG [--budget B] [--subprocess] [--tier t] [--param p]
//! ```

use crate::json::{hex, quote, str_array, unhex};
use crate::panics::{self, CURRENT_INDEX};
use crate::rng::gen_case;
use crate::{execute, Outcome, Target};
use std::collections::BTreeMap;
use std::io::Write;
use std::sync::atomic::Ordering;

struct Args {
    map: BTreeMap<String, String>,
    flags: Vec<String>,
}

impl Args {
    fn parse(args: &[String]) -> Self {
        let mut map = BTreeMap::new();
        let mut flags = Vec::new();
        let mut i = 0;
        while i < args.len() {
            let a = &args[i];
            if let Some(k) = a.strip_prefix("--") {
                if i + 1 < args.len() && !args[i + 1].starts_with("--") {
                    map.insert(k.to_string(), args[i + 1].clone());
                    i += 2;
                    continue;
                }
                flags.push(k.to_string());
            }
            i += 1;
        }
        Args { map, flags }
    }
    fn get(&self, k: &str) -> Option<&str> {
        self.map.get(k).map(|s| s.as_str())
    }
    fn num(&self, k: &str, default: u64) -> u64 {
        self.get(k).and_then(|s| s.parse().ok()).unwrap_or(default)
    }
    fn flag(&self, k: &str) -> bool {
        self.flags.iter().any(|f| f == k)
    }
}

fn find<'a>(targets: &'a [Target], name: &str) -> &'a Target {
    match targets.iter().find(|t| t.name == name) {
        Some(t) => t,
        None => {
            eprintln!("unknown target {name}");
            std::process::exit(2)
        }
    }
}

struct ViolRec {
    sig: String,
    detail: String,
    index: u64,
    hex: String,
    len: usize,
    count: u64,
}

fn map_json(m: &BTreeMap<String, u64>) -> String {
    let v: Vec<String> = m.iter().map(|(k, v)| format!("{}:{}", quote(k), v)).collect();
    format!("{{{}}}", v.join(","))
}

pub fn main(targets: &[Target]) {
    let argv: Vec<String> = std::env::args().collect();
    if argv.len() < 2 {
        eprintln!("usage: {} list|worker|replay|shrink ...", argv[0]);
        std::process::exit(2);
    }
    let args = Args::parse(&argv[2..]);
    panics::install_hook();
    if args.flag("ubonly") {
        crate::UB_ONLY.store(true, Ordering::Relaxed);
    }
    match argv[1].as_str() {
        "list" => {
            for t in targets {
                println!("{}\t{}\t{}", t.name, t.props, t.max_len);
            }
        }
        "worker" => worker(targets, &args),
        "replay" => replay(targets, &args),
        "shrink" => shrink_cmd(targets, &args),
        "gen" => {
            let t = find(targets, args.get("target").unwrap_or(""));
            let max_len = args.num("max-len", t.max_len as u64) as usize;
            let bytes = gen_case(args.num("seed", 0), t.name, args.num("index", 0), max_len);
            println!("{}", hex(&bytes));
        }
        other => {
            eprintln!("unknown command {other}");
            std::process::exit(2);
        }
    }
}

fn worker(targets: &[Target], args: &Args) {
    let t = find(targets, args.get("target").unwrap_or(""));
    let seed = args.num("seed", 0);
    let start = args.num("start", 0);
    let count = args.num("count", 1000);
    let tier = args.num("tier", 0) as u8;
    let param = args.num("param", 0);
    let max_len = args.num("max-len", t.max_len as u64) as usize;
    let out = args.get("out").expect("--out").to_string();
    panics::set_abort_file(Some(format!("{out}.abort")));

    let mut executed = 0u64;
    let mut passes = 0u64;
    let mut nontrivial = 0u64;
    let mut excluded_known = 0u64;
    let mut discards: BTreeMap<String, u64> = BTreeMap::new();
    let mut labels: BTreeMap<String, u64> = BTreeMap::new();
    let mut viols: Vec<ViolRec> = Vec::new();
    let mut harness_bugs: Vec<String> = Vec::new();
    let mut hashes: Vec<u64> = Vec::new();
    let mut sample_idx: Vec<u64> = Vec::new();
    const HASH_CAP: usize = 1 << 22;

    // progress marker: lets the driver resume behind an aborting case
    let progress_path = format!("{out}.progress");
    let paranoid = args.flag("paranoid");
    // per-case watchdog: a case normally takes microseconds; one that runs for more than
    // `--case-timeout` seconds is recorded (with its index) and the worker exits.
    let case_timeout = args.num("case-timeout", 60);
    {
        let abort_path = format!("{out}.abort");
        std::thread::spawn(move || {
            let mut last = u64::MAX;
            let mut since = std::time::Instant::now();
            loop {
                std::thread::sleep(std::time::Duration::from_millis(500));
                let cur = CURRENT_INDEX.load(Ordering::Relaxed);
                if cur == u64::MAX - 1 {
                    return; // worker is done
                }
                if cur != last {
                    last = cur;
                    since = std::time::Instant::now();
                } else if cur != u64::MAX && since.elapsed().as_secs() >= case_timeout {
                    let line = format!(
                        "{{\"abort\":true,\"hang\":true,\"index\":{},\"sig\":\"hang/case_exceeded_time_limit\",\"detail\":\"case did not finish within {} s\"}}\n",
                        cur, case_timeout
                    );
                    if let Ok(mut f) = std::fs::OpenOptions::new().create(true).append(true).open(&abort_path) {
                        let _ = f.write_all(line.as_bytes());
                        let _ = f.sync_all();
                    }
                    std::process::exit(3);
                }
            }
        });
    }

    for index in start..start + count {
        CURRENT_INDEX.store(index, Ordering::Relaxed);
        if paranoid {
            let _ = std::fs::write(&progress_path, format!("{index}"));
        }
        let bytes = gen_case(seed, t.name, index, max_len);
        let ex = execute(t, &bytes, false, tier, param);
        executed += 1;
        excluded_known += ex.excluded_known as u64;
        for (l, _) in ex.labels.iter() {
            *labels.entry(l.to_string()).or_insert(0) += 1;
        }
        match ex.outcome {
            Outcome::Pass => {
                passes += 1;
                if ex.nontrivial {
                    nontrivial += 1;
                    if hashes.len() < HASH_CAP {
                        hashes.push(ex.hash);
                    }
                    if sample_idx.len() < 3 {
                        sample_idx.push(index);
                    }
                }
            }
            Outcome::Discard(why) => {
                *discards.entry(why).or_insert(0) += 1;
            }
            Outcome::HarnessBug(msg) => {
                if harness_bugs.len() < 5 {
                    harness_bugs.push(format!("index {index}: {msg}"));
                }
            }
            Outcome::Violation(f) => {
                let consumed = ex.consumed.min(bytes.len());
                if let Some(v) = viols.iter_mut().find(|v| v.sig == f.sig) {
                    v.count += 1;
                    if consumed < v.len {
                        v.len = consumed;
                        v.hex = hex(&bytes[..consumed]);
                        v.index = index;
                        v.detail = f.detail;
                    }
                } else if viols.len() < 64 {
                    viols.push(ViolRec {
                        sig: f.sig,
                        detail: f.detail,
                        index,
                        hex: hex(&bytes[..consumed]),
                        len: consumed,
                        count: 1,
                    });
                }
            }
        }
        if executed % 4096 == 0 {
            let _ = std::fs::write(&progress_path, format!("{index}"));
        }
    }
    CURRENT_INDEX.store(u64::MAX - 1, Ordering::Relaxed);

    // samples: re-execute the first few non-trivial cases with tracing on
    let mut samples = Vec::new();
    for &index in &sample_idx {
        let bytes = gen_case(seed, t.name, index, max_len);
        let ex = execute(t, &bytes, true, tier, param);
        samples.push(format!(
            "{{\"index\":{},\"hex\":{},\"case\":{}}}",
            index,
            quote(&hex(&bytes[..ex.consumed.min(bytes.len())])),
            str_array(&ex.trace)
        ));
    }

    let mut hb = Vec::with_capacity(hashes.len() * 8);
    for h in &hashes {
        hb.extend_from_slice(&h.to_le_bytes());
    }
    std::fs::write(format!("{out}.hashes"), hb).expect("write hashes");

    let vj: Vec<String> = viols
        .iter()
        .map(|v| {
            format!(
                "{{\"sig\":{},\"detail\":{},\"index\":{},\"hex\":{},\"count\":{}}}",
                quote(&v.sig),
                quote(&v.detail),
                v.index,
                quote(&v.hex),
                v.count
            )
        })
        .collect();
    let json = format!(
        "{{\"target\":{},\"seed\":{},\"start\":{},\"count\":{},\"executed\":{},\"passes\":{},\"nontrivial\":{},\"nontrivial_hashes_recorded\":{},\"excluded_known\":{},\"discards\":{},\"labels\":{},\"violations\":[{}],\"harness_bugs\":{},\"samples\":[{}]}}\n",
        quote(t.name),
        seed,
        start,
        count,
        executed,
        passes,
        nontrivial,
        hashes.len(),
        excluded_known,
        map_json(&discards),
        map_json(&labels),
        vj.join(","),
        str_array(&harness_bugs),
        samples.join(",")
    );
    let mut f = std::fs::File::create(&out).expect("create out");
    f.write_all(json.as_bytes()).expect("write out");
}

fn case_bytes(args: &Args) -> Vec<u8> {
    if let Some(h) = args.get("hex") {
        unhex(h).expect("bad hex")
    } else if let Some(p) = args.get("hexfile") {
        unhex(&std::fs::read_to_string(p).expect("read hexfile")).expect("bad hex")
    } else {
        Vec::new()
    }
}

fn replay(targets: &[Target], args: &Args) {
    let t = find(targets, args.get("target").unwrap_or(""));
    let tier = args.num("tier", 0) as u8;
    let param = args.num("param", 0);
    let quiet = args.flag("quiet");
    panics::set_verbose(!quiet);
    let bytes = case_bytes(args);
    CURRENT_INDEX.store(0, Ordering::Relaxed);
    let ex = crate::execute_opts(t, &bytes, !quiet, !quiet, tier, param);
    let (kind, sig, detail) = match &ex.outcome {
        Outcome::Pass => ("pass", String::new(), String::new()),
        Outcome::Discard(w) => ("discard", w.clone(), String::new()),
        Outcome::Violation(f) => ("violation", f.sig.clone(), f.detail.clone()),
        Outcome::HarnessBug(m) => ("harness_bug", String::new(), m.clone()),
    };
    let labels: Vec<String> = ex.labels.keys().map(|k| k.to_string()).collect();
    println!(
        "RESULT {{\"outcome\":{},\"sig\":{},\"detail\":{},\"nontrivial\":{},\"consumed\":{},\"labels\":{},\"case\":{}}}",
        quote(kind),
        quote(&sig),
        quote(&detail),
        ex.nontrivial,
        ex.consumed,
        str_array(&labels),
        str_array(&ex.trace)
    );
}

fn shrink_cmd(targets: &[Target], args: &Args) {
    let t = find(targets, args.get("target").unwrap_or(""));
    let tier = args.num("tier", 0) as u8;
    let param = args.num("param", 0);
    let sig = args.get("sig").expect("--sig").to_string();
    let sub = args.flag("subprocess");
    let budget = args.num("budget", if sub { 1500 } else { 30000 }) as usize;
    let bytes = case_bytes(args);
    let exe = std::env::current_exe().expect("current_exe");
    let quoted_sig = quote(&sig);
    let (small, st) = if sub {
        crate::shrink::shrink(&bytes, budget, |cand| {
            let out = std::process::Command::new(&exe)
                .args([
                    "replay",
                    "--target",
                    t.name,
                    "--hex",
                    &hex(cand),
                    "--tier",
                    &tier.to_string(),
                    "--param",
                    &param.to_string(),
                    "--quiet",
                ])
                .args(if crate::UB_ONLY.load(Ordering::Relaxed) { vec!["--ubonly"] } else { vec![] })
                .stderr(std::process::Stdio::null())
                .output();
            match out {
                Ok(o) => {
                    let s = String::from_utf8_lossy(&o.stdout);
                    s.lines().any(|l| {
                        (l.starts_with("RESULT ") && l.contains("\"outcome\":\"violation\"") || l.starts_with("ABORT-RECORD "))
                            && l.contains(&format!("\"sig\":{quoted_sig}"))
                    })
                }
                Err(_) => false,
            }
        })
    } else {
        crate::shrink::shrink(&bytes, budget, |cand| {
            matches!(execute(t, cand, false, tier, param).outcome, Outcome::Violation(ref f) if f.sig == sig)
        })
    };
    println!(
        "SHRUNK {{\"hex\":{},\"evals\":{},\"accepted\":{},\"from_len\":{},\"to_len\":{}}}",
        quote(&hex(&small)),
        st.evals,
        st.accepted,
        bytes.len(),
        small.len()
    );
}
