//! Bit-level stack and queue coders.  `ctx.param` selects the property whose oracle is
//! asserted: `16` (C16: faithful LIFO/FIFO containers, exact length, export / re-import,
//! Exp-Golomb and Huffman symbol codes), `8` (C08: inspections never change the output),
//! `18` (C18: length / emptiness / exhaustion queries).
//!
//! Generator: word type u8/u16/u32/u64/usize, `Vec` or `SmallVec` backend, a script over
//! {write_bit, read_bit, encode_symbol / decode_symbol with Exp-Golomb (values from
//! {0, 1, MAX-1, MAX, 2^k-1, 2^k, random}) or a Huffman codebook, len / is_empty,
//! get_compressed guards, export -> re-import (stack), iter / as_decoder, into_decoder}.
//!
//! Oracle: a `Vec<bool>` (with symbol marks); exported words must be the little-endian
//! packing of the bits (+ terminating 1 for the stack, zero padding for the queue).

use constriction::backends::Cursor;
use constriction::symbol::exp_golomb::ExpGolomb;
use constriction::symbol::huffman::{DecoderHuffmanTree, EncoderHuffmanTree};
use constriction::symbol::{EncoderCodebook, QueueDecoder, QueueEncoder, ReadBitStream, StackCoder, WriteBitStream};
use constriction::UnwrapInfallible;
use core::convert::Infallible;
use hcommon::hexwords;
use smallvec::SmallVec;
use vengine::{note, vcheck, vcheck_if, vfail_if, CaseResult, Ctx, Src};

#[derive(Clone, Debug, PartialEq)]
enum SymKind {
    Eg8(u8),
    Eg16(u16),
    Eg32(u32),
    Eg64(u64),
    Huff(usize),
}

/// model entry: `len` bits on the bit stack belong to one symbol
#[derive(Clone, Debug)]
struct Mark {
    kind: SymKind,
    start: usize, // index into the bit vector where this codeword starts
    len: usize,
}

fn gen_eg_value(src: &mut Src, bits: u32) -> u64 {
    let max = if bits >= 64 { u64::MAX } else { (1u64 << bits) - 1 };
    match src.below(8) {
        0 => 0,
        1 => 1,
        2 => max - 1,
        3 => max,
        4 => (1u64 << src.below(bits as u64)).wrapping_sub(1),
        5 => 1u64 << src.below(bits as u64),
        _ => src.bits(bits),
    }
}

fn prefix_bits<C: EncoderCodebook>(c: &C, s: C::Symbol) -> Result<Vec<bool>, String> {
    let mut v = Vec::new();
    c.encode_symbol_prefix(s, |b| {
        v.push(b);
        Ok::<(), Infallible>(())
    })
    .map_err(|e| format!("{:?}", e))?;
    Ok(v)
}

/// Independent Exp-Golomb codeword (order-0): floor(log2(n+1)) zeros, then n+1 in binary.
fn ref_exp_golomb(n: u64, bits: u32) -> Vec<bool> {
    let v = n as u128 + 1;
    let nb = 128 - v.leading_zeros(); // number of bits of n+1
    let _ = bits;
    let mut out = vec![false; (nb - 1) as usize];
    for i in (0..nb).rev() {
        out.push((v >> i) & 1 == 1);
    }
    out
}

fn pack(bits: &[bool], wbits: usize, terminator: bool) -> Vec<u64> {
    let mut all: Vec<bool> = bits.to_vec();
    if terminator {
        all.push(true);
    }
    let mut words = vec![0u64; all.len().div_ceil(wbits)];
    for (i, &b) in all.iter().enumerate() {
        if b {
            words[i / wbits] |= 1u64 << (i % wbits);
        }
    }
    words
}

macro_rules! stack_script {
    ($name:ident, $W:ty, $B:ty, $label:literal) => {
        pub fn $name(src: &mut Src, ctx: &mut Ctx) -> CaseResult {
            type Coder = StackCoder<$W, $B>;
            let mode = ctx.param;
            ctx.label(concat!("stack:", $label));
            note!(ctx, "stack coder {}", $label);
            let wbits = <$W>::BITS as usize;
            let hw: Vec<u32> = (0..src.range_usize(1, 6)).map(|_| 1 + src.below(9) as u32).collect();
            let henc = EncoderHuffmanTree::from_probabilities::<u32, _>(&hw);
            let hdec = DecoderHuffmanTree::from_probabilities::<u32, _>(&hw);
            let mut coder = Coder::new();
            let mut twin = Coder::new(); // C08: never inspected
            let mut bits: Vec<bool> = Vec::new();
            let mut marks: Vec<Mark> = Vec::new();
            let max_ops = if ctx.tier == 0 { 80 } else { 600 };
            let mut ops = 0;
            let to_u64 = |v: &[$W]| -> Vec<u64> { v.iter().map(|&x| x as u64).collect() };
            while ops < max_ops && !src.is_empty() {
                ops += 1;
                let op = if mode == 8 { src.weighted(&[30, 0, 14, 0, 0, 30, 0, 10, 0]) } else { src.weighted(&[30, 14, 14, 10, 8, 6, 8, 6, 4]) };
                match op {
                    0 => {
                        let k = src.range_usize(1, 12);
                        for _ in 0..k {
                            let b = src.bool();
                            coder.write_bit(b).unwrap_infallible();
                            if mode == 8 {
                                twin.write_bit(b).unwrap_infallible();
                            }
                            bits.push(b);
                        }
                        note!(ctx, "write {} bits", k);
                    }
                    1 => {
                        let r = coder.read_bit().unwrap_infallible();
                        let exp = bits.pop();
                        note!(ctx, "read_bit -> {:?}", r);
                        vcheck_if!(mode == 16, ctx, r == exp, "C16/stack_read_bit", "read_bit returned {:?}, the most recently written unread bit is {:?}", r, exp);
                        // a raw read cuts into the codeword on top, if any
                        while marks.last().map(|m| m.start + m.len > bits.len()).unwrap_or(false) {
                            marks.pop();
                        }
                    }
                    2 => {
                        // encode a symbol
                        let which = src.below(5);
                        let start = bits.len();
                        let (kind, pfx): (SymKind, Vec<bool>) = match which {
                            0 => {
                                let v = gen_eg_value(src, 8) as u8;
                                let r = coder.encode_symbol(v, ExpGolomb::<u8>::new());
                                vcheck_if!(mode == 16, ctx, r.is_ok(), "C16/encode_symbol_failed", "{:?}", r);
                                if mode == 8 {
                                    let _ = twin.encode_symbol(v, ExpGolomb::<u8>::new());
                                }
                                (SymKind::Eg8(v), ref_exp_golomb(v as u64, 8))
                            }
                            1 => {
                                let v = gen_eg_value(src, 16) as u16;
                                let r = coder.encode_symbol(v, ExpGolomb::<u16>::new());
                                vcheck_if!(mode == 16, ctx, r.is_ok(), "C16/encode_symbol_failed", "{:?}", r);
                                if mode == 8 {
                                    let _ = twin.encode_symbol(v, ExpGolomb::<u16>::new());
                                }
                                (SymKind::Eg16(v), ref_exp_golomb(v as u64, 16))
                            }
                            2 => {
                                let v = gen_eg_value(src, 32) as u32;
                                let r = coder.encode_symbol(v, ExpGolomb::<u32>::new());
                                vcheck_if!(mode == 16, ctx, r.is_ok(), "C16/encode_symbol_failed", "{:?}", r);
                                if mode == 8 {
                                    let _ = twin.encode_symbol(v, ExpGolomb::<u32>::new());
                                }
                                (SymKind::Eg32(v), ref_exp_golomb(v as u64, 32))
                            }
                            3 => {
                                let v = gen_eg_value(src, 64);
                                let r = coder.encode_symbol(v, ExpGolomb::<u64>::new());
                                vcheck_if!(mode == 16, ctx, r.is_ok(), "C16/encode_symbol_failed", "{:?}", r);
                                if mode == 8 {
                                    let _ = twin.encode_symbol(v, ExpGolomb::<u64>::new());
                                }
                                if v == u64::MAX {
                                    ctx.label("exp_golomb_u64_max");
                                }
                                (SymKind::Eg64(v), ref_exp_golomb(v, 64))
                            }
                            _ => {
                                let s = src.below_usize(hw.len());
                                let r = coder.encode_symbol(s, &henc);
                                vcheck_if!(mode == 16, ctx, r.is_ok(), "C16/encode_symbol_failed", "{:?}", r);
                                if mode == 8 {
                                    let _ = twin.encode_symbol(s, &henc);
                                }
                                let p = match prefix_bits(&henc, s) {
                                    Ok(p) => p,
                                    Err(e) => vfail_if!(mode == 16, ctx, "C16/encode_symbol_failed", "{}", e),
                                };
                                (SymKind::Huff(s), p)
                            }
                        };
                        note!(ctx, "encode_symbol {:?} ({} bits)", kind, pfx.len());
                        // on a stack the codeword is written back to front
                        for &b in pfx.iter().rev() {
                            bits.push(b);
                        }
                        marks.push(Mark { kind, start, len: pfx.len() });
                    }
                    3 => {
                        // decode the symbol on top, if the top of the stack is a whole codeword
                        let m = match marks.last() {
                            Some(m) if m.start + m.len == bits.len() => m.clone(),
                            _ => continue,
                        };
                        let got: Result<SymKind, String> = match &m.kind {
                            SymKind::Eg8(_) => coder.decode_symbol(ExpGolomb::<u8>::new()).map(SymKind::Eg8).map_err(|e| format!("{:?}", e)),
                            SymKind::Eg16(_) => coder.decode_symbol(ExpGolomb::<u16>::new()).map(SymKind::Eg16).map_err(|e| format!("{:?}", e)),
                            SymKind::Eg32(_) => coder.decode_symbol(ExpGolomb::<u32>::new()).map(SymKind::Eg32).map_err(|e| format!("{:?}", e)),
                            SymKind::Eg64(_) => coder.decode_symbol(ExpGolomb::<u64>::new()).map(SymKind::Eg64).map_err(|e| format!("{:?}", e)),
                            SymKind::Huff(_) => coder.decode_symbol(&hdec).map(SymKind::Huff).map_err(|e| format!("{:?}", e)),
                        };
                        note!(ctx, "decode_symbol -> {:?} (expect {:?})", got, m.kind);
                        vcheck_if!(mode == 16, ctx, got.as_ref() == Ok(&m.kind), "C16/stack_symbol_roundtrip", "decoded {:?}, the symbol on top of the stack is {:?}", got, m.kind);
                        bits.truncate(m.start);
                        marks.pop();
                        ctx.label("symbol_decoded");
                    }
                    4 => {
                        let (l, e) = (coder.len(), coder.is_empty());
                        let sig_len = if mode == 18 { "C18/bitstack_len" } else { "C16/stack_len" };
                        vcheck_if!(mode == 18 || mode == 16, ctx, l == bits.len(), sig_len, "len() = {} but {} bits are on the stack", l, bits.len());
                        vcheck_if!(mode == 18 || mode == 16, ctx, e == bits.is_empty(), if mode == 18 { "C18/bitstack_is_empty" } else { "C16/stack_is_empty" }, "is_empty() = {} with {} bits on the stack", e, bits.len());
                        ctx.label_if(bits.len() % wbits == 0 && !bits.is_empty(), "len_with_full_current_word");
                    }
                    5 => {
                        // get_compressed guard
                        let exp = pack(&bits, wbits, true);
                        let before = coder.len();
                        {
                            let g = coder.get_compressed();
                            let v = to_u64(&*g);
                            vcheck_if!(
                                mode == 8 || mode == 16,
                                ctx,
                                v == exp,
                                if mode == 8 { "C08/bitstack_view" } else { "C16/stack_export_packing" },
                                "get_compressed shows {} but the {} bits on the stack pack to {}",
                                hexwords(&v),
                                bits.len(),
                                hexwords(&exp)
                            );
                        }
                        ctx.label_if(bits.len() % wbits == 0 && !bits.is_empty(), "guard_with_full_current_word");
                        ctx.label_if((bits.len() + 1) % wbits == 0, "guard_terminator_fills_word");
                        if mode == 8 {
                            ctx.nontrivial();
                            vcheck_if!(mode == 8, ctx, coder.len() == before, "C08/bitstack_len_changed_by_guard", "len {} -> {}", before, coder.len());
                        }
                    }
                    6 => {
                        // export -> re-import
                        let exp = pack(&bits, wbits, true);
                        let words = coder.into_compressed().unwrap_infallible();
                        let v = to_u64(&words);
                        vcheck_if!(mode == 16, ctx, v == exp, "C16/stack_export_packing", "into_compressed returned {} but the {} bits pack to {}", hexwords(&v), bits.len(), hexwords(&exp));
                        note!(ctx, "export {} -> re-import", hexwords(&v));
                        coder = match Coder::from_compressed(words) {
                            Ok(c) => c,
                            Err(_) => vfail_if!(mode == 16, ctx, "C16/stack_reimport_rejected", "from_compressed rejected the coder's own export {}", hexwords(&v)),
                        };
                        vcheck_if!(mode == 16, ctx, coder.len() == bits.len(), "C16/stack_reimport_len",
                            "re-imported coder reports len {} but {} bits were exported (words {})",
                            coder.len(),
                            bits.len(),
                            hexwords(&v)
                        );
                        let partial = bits.len() % wbits;
                        if partial != 0 && bits[bits.len() - partial..].iter().any(|&b| b) {
                            ctx.label("reimport_with_set_bit_below_terminator");
                            ctx.nontrivial();
                        }
                        if bits.is_empty() {
                            // "will return with a success if called with an empty backend": an empty stack, on which the
                            // history continues
                            coder = match Coder::from_compressed(Vec::new()) {
                                Ok(c) => c,
                                Err(_) => vfail_if!(mode == 16, ctx, "C16/stack_reimport_rejected", "from_compressed rejected an empty backend"),
                            };
                            vcheck_if!(mode == 16, ctx, coder.len() == 0 && coder.is_empty(), "C16/stack_reimport_len", "a coder imported from an empty backend reports len {} is_empty {}", coder.len(), coder.is_empty());
                            ctx.label("reimport_from_empty_backend");
                        }
                        ctx.label("reimport");
                    }
                    7 => {
                        // iter(): bits in pop order, coder untouched
                        let got: Vec<bool> = coder.iter().map(|r| r.unwrap_infallible()).collect();
                        let exp: Vec<bool> = bits.iter().rev().cloned().collect();
                        vcheck_if!(mode == 8 || mode == 16, ctx, got == exp, if mode == 8 { "C08/bitstack_iter_view" } else { "C16/stack_iter" }, "iter() yields {} bits, first mismatch at {:?}", got.len(), got.iter().zip(&exp).position(|(a, b)| a != b));
                        vcheck_if!(mode == 8, ctx, coder.len() == bits.len(), "C08/bitstack_len_changed_by_iter", "len after iter {}", coder.len());
                        ctx.label("iter");
                    }
                    _ => {
                        // read everything through into_decoder on a rebuilt copy
                        let words = {
                            let g = coder.get_compressed();
                            g.to_vec()
                        };
                        let copy = match StackCoder::<$W, Vec<$W>>::from_compressed(words) {
                            Ok(c) => c,
                            Err(_) => vfail_if!(mode == 16, ctx, "C16/stack_reimport_rejected", "from_compressed rejected a guard view"),
                        };
                        let got: Vec<bool> = copy.into_decoder().map(|r| r.unwrap_infallible()).collect();
                        let exp: Vec<bool> = bits.iter().rev().cloned().collect();
                        vcheck_if!(mode == 16, ctx, got == exp, "C16/stack_into_decoder", "copy.into_decoder() yields {} bits, expected {}", got.len(), exp.len());
                    }
                }
            }
            if mode != 8 && bits.len() >= 2 * wbits {
                ctx.nontrivial();
            }
            // drain: everything comes back in reverse order
            let exp_final = pack(&bits, wbits, true);
            if mode == 8 {
                let a = to_u64(&coder.into_compressed().unwrap_infallible());
                let b = to_u64(&twin.into_compressed().unwrap_infallible());
                vcheck_if!(mode == 8, ctx, a == b, "C08/bitstack_final_output_differs", "inspected {} untouched {}", hexwords(&a), hexwords(&b));
                vcheck_if!(mode == 16, ctx, a == exp_final, "C16/stack_export_packing", "final {} expected {}", hexwords(&a), hexwords(&exp_final));
                return Ok(());
            }
            while let Some(exp) = bits.pop() {
                let r = coder.read_bit().unwrap_infallible();
                vcheck_if!(mode == 16, ctx, r == Some(exp), "C16/stack_read_bit", "final drain: read_bit returned {:?}, expected {} ({} bits left)", r, exp, bits.len());
            }
            let r = coder.read_bit().unwrap_infallible();
            vcheck_if!(mode == 16, ctx, r.is_none(), "C16/stack_read_past_end", "read_bit on the empty stack returned {:?}", r);
            vcheck_if!(mode == 18 || mode == 16, ctx, coder.is_empty() && coder.len() == 0, if mode == 18 { "C18/bitstack_is_empty" } else { "C16/stack_is_empty" }, "drained coder: is_empty {} len {}", coder.is_empty(), coder.len());
            Ok(())
        }
    };
}

macro_rules! queue_script {
    ($name:ident, $W:ty, $label:literal) => {
        pub fn $name(src: &mut Src, ctx: &mut Ctx) -> CaseResult {
            type Enc = QueueEncoder<$W, Vec<$W>>;
            let mode = ctx.param;
            ctx.label(concat!("queue:", $label));
            note!(ctx, "queue encoder {}", $label);
            let wbits = <$W>::BITS as usize;
            let hw: Vec<u32> = (0..src.range_usize(1, 6)).map(|_| 1 + src.below(9) as u32).collect();
            let henc = EncoderHuffmanTree::from_probabilities::<u32, _>(&hw);
            let hdec = DecoderHuffmanTree::from_probabilities::<u32, _>(&hw);
            let via = src.below(4);
            let stop_frac = src.below(256) as usize;
            let mut enc = Enc::new();
            let mut twin = Enc::new();
            let mut bits: Vec<bool> = Vec::new();
            let mut syms: Vec<(usize, SymKind)> = Vec::new(); // (start bit, symbol), only while the stream is all symbols
            let only_symbols = src.bool();
            if !only_symbols && stop_frac % 4 == 3 {
                // an encoder that resumes on words which are already there (`QueueEncoder::from_compressed`): it sits at a
                // word boundary with nothing pending. (No new draws.)
                let prefix: Vec<$W> = (0..1 + (stop_frac / 4) % 2).map(|i| (stop_frac as u64 * 0x9e37_79b9 + i as u64 * 77) as $W).collect();
                for w in &prefix {
                    for b in 0..wbits {
                        bits.push((*w >> b) & 1 == 1);
                    }
                }
                enc = Enc::from_compressed(prefix.clone());
                twin = Enc::from_compressed(prefix);
                ctx.label("queue_encoder_resumed_on_existing_words");
            }
            let max_ops = if ctx.tier == 0 { 80 } else { 600 };
            let mut ops = 0;
            let to_u64 = |v: &[$W]| -> Vec<u64> { v.iter().map(|&x| x as u64).collect() };
            while ops < max_ops && !src.is_empty() {
                ops += 1;
                let op = if only_symbols { src.weighted(&[0, 30, 6, 8]) } else { src.weighted(&[30, 10, 6, 8]) };
                match op {
                    0 => {
                        let k = src.range_usize(1, 12);
                        for _ in 0..k {
                            let b = src.bool();
                            enc.write_bit(b).unwrap_infallible();
                            twin.write_bit(b).unwrap_infallible();
                            bits.push(b);
                        }
                    }
                    1 => {
                        let which = src.below(5);
                        let start = bits.len();
                        let (kind, pfx) = match which {
                            0 => {
                                let v = gen_eg_value(src, 8) as u8;
                                let r = enc.encode_symbol(v, ExpGolomb::<u8>::new());
                                vcheck_if!(mode == 16, ctx, r.is_ok(), "C16/encode_symbol_failed", "{:?}", r);
                                let _ = twin.encode_symbol(v, ExpGolomb::<u8>::new());
                                (SymKind::Eg8(v), ref_exp_golomb(v as u64, 8))
                            }
                            1 => {
                                let v = gen_eg_value(src, 16) as u16;
                                let r = enc.encode_symbol(v, ExpGolomb::<u16>::new());
                                vcheck_if!(mode == 16, ctx, r.is_ok(), "C16/encode_symbol_failed", "{:?}", r);
                                let _ = twin.encode_symbol(v, ExpGolomb::<u16>::new());
                                (SymKind::Eg16(v), ref_exp_golomb(v as u64, 16))
                            }
                            2 => {
                                let v = gen_eg_value(src, 32) as u32;
                                let r = enc.encode_symbol(v, ExpGolomb::<u32>::new());
                                vcheck_if!(mode == 16, ctx, r.is_ok(), "C16/encode_symbol_failed", "{:?}", r);
                                let _ = twin.encode_symbol(v, ExpGolomb::<u32>::new());
                                (SymKind::Eg32(v), ref_exp_golomb(v as u64, 32))
                            }
                            3 => {
                                let v = gen_eg_value(src, 64);
                                let r = enc.encode_symbol(v, ExpGolomb::<u64>::new());
                                vcheck_if!(mode == 16, ctx, r.is_ok(), "C16/encode_symbol_failed", "{:?}", r);
                                let _ = twin.encode_symbol(v, ExpGolomb::<u64>::new());
                                (SymKind::Eg64(v), ref_exp_golomb(v, 64))
                            }
                            _ => {
                                let s = src.below_usize(hw.len());
                                let r = enc.encode_symbol(s, &henc);
                                vcheck_if!(mode == 16, ctx, r.is_ok(), "C16/encode_symbol_failed", "{:?}", r);
                                let _ = twin.encode_symbol(s, &henc);
                                let p = match prefix_bits(&henc, s) {
                                    Ok(p) => p,
                                    Err(e) => vfail_if!(mode == 16, ctx, "C16/encode_symbol_failed", "{}", e),
                                };
                                (SymKind::Huff(s), p)
                            }
                        };
                        note!(ctx, "encode_symbol {:?}", kind);
                        bits.extend_from_slice(&pfx);
                        syms.push((start, kind));
                    }
                    2 => {
                        let (l, e) = (enc.len(), enc.is_empty());
                        vcheck_if!(mode == 18 || mode == 16, ctx, l == bits.len(), if mode == 18 { "C18/bitqueue_len" } else { "C16/queue_len" }, "len() = {} but {} bits were written", l, bits.len());
                        vcheck_if!(mode == 18 || mode == 16, ctx, e == bits.is_empty(), if mode == 18 { "C18/bitqueue_is_empty" } else { "C16/queue_is_empty" }, "is_empty() = {} with {} bits written", e, bits.len());
                    }
                    _ => {
                        let exp = pack(&bits, wbits, false);
                        {
                            let g = enc.get_compressed();
                            let v = to_u64(&*g);
                            vcheck_if!(mode == 8 || mode == 16, ctx, v == exp, if mode == 8 { "C08/bitqueue_view" } else { "C16/queue_export_packing" }, "get_compressed shows {} but the {} bits pack to {}", hexwords(&v), bits.len(), hexwords(&exp));
                        }
                        if mode == 8 {
                            ctx.nontrivial();
                        }
                        ctx.label_if(bits.len() % wbits == 0 && !bits.is_empty(), "guard_with_full_current_word");
                    }
                }
            }
            if mode != 8 && bits.len() >= 2 * wbits {
                ctx.nontrivial();
            }
            let exp = pack(&bits, wbits, false);
            if mode == 8 {
                let a = to_u64(&enc.into_compressed().unwrap_infallible());
                let b = to_u64(&twin.into_compressed().unwrap_infallible());
                vcheck_if!(mode == 8, ctx, a == b, "C08/bitqueue_final_output_differs", "inspected {} untouched {}", hexwords(&a), hexwords(&b));
                return Ok(());
            }
            match via {
                0 | 1 => {
                    let words = enc.into_compressed().unwrap_infallible();
                    let v = to_u64(&words);
                    vcheck_if!(mode == 16, ctx, v == exp, "C16/queue_export_packing", "into_compressed returned {} but the {} bits pack to {}", hexwords(&v), bits.len(), hexwords(&exp));
                    let mut dec = QueueDecoder::<$W, _>::from_compressed(Cursor::new_at_write_beginning(words));
                    if only_symbols && via == 1 {
                        ctx.label("queue_symbols_decoded");
                        let stop = syms.len() * stop_frac / 255;
                        for (i, (_start, kind)) in syms.iter().enumerate().take(stop) {
                            let got: Result<SymKind, String> = match kind {
                                SymKind::Eg8(_) => dec.decode_symbol(ExpGolomb::<u8>::new()).map(SymKind::Eg8).map_err(|e| format!("{:?}", e)),
                                SymKind::Eg16(_) => dec.decode_symbol(ExpGolomb::<u16>::new()).map(SymKind::Eg16).map_err(|e| format!("{:?}", e)),
                                SymKind::Eg32(_) => dec.decode_symbol(ExpGolomb::<u32>::new()).map(SymKind::Eg32).map_err(|e| format!("{:?}", e)),
                                SymKind::Eg64(_) => dec.decode_symbol(ExpGolomb::<u64>::new()).map(SymKind::Eg64).map_err(|e| format!("{:?}", e)),
                                SymKind::Huff(_) => dec.decode_symbol(&hdec).map(SymKind::Huff).map_err(|e| format!("{:?}", e)),
                            };
                            vcheck_if!(mode == 16, ctx, got.as_ref() == Ok(kind), "C16/queue_symbol_roundtrip", "symbol {} decoded as {:?}, encoded {:?}", i, got, kind);
                        }
                        if mode == 18 {
                            if stop == syms.len() {
                                vcheck_if!(mode == 18, ctx, dec.maybe_exhausted(), "C18/bitqueue_decoder_not_exhausted_at_end", "after decoding all {} symbols maybe_exhausted() is false", stop);
                            }
                        }
                    } else {
                        let stop = bits.len() * stop_frac / 255;
                        for (i, &b) in bits.iter().enumerate().take(stop) {
                            let r = dec.read_bit().unwrap_infallible();
                            vcheck_if!(mode == 16, ctx, r == Some(b), "C16/queue_read_bit", "bit {} read as {:?}, written {}", i, r, b);
                        }
                        if mode == 18 {
                            let consumed_words = stop.div_ceil(wbits);
                            let total_words = exp.len();
                            if total_words > consumed_words {
                                vcheck_if!(mode == 18, ctx, !dec.maybe_exhausted(), "C18/bitqueue_decoder_exhausted_with_words_left", "after {} of {} bits ({} whole words unread) maybe_exhausted() is true", stop, bits.len(), total_words - consumed_words);
                                ctx.label("decoder_with_words_left");
                            }
                            if stop == bits.len() {
                                vcheck_if!(mode == 18, ctx, dec.maybe_exhausted(), "C18/bitqueue_decoder_not_exhausted_at_end", "after reading all {} bits maybe_exhausted() is false", stop);
                            }
                        }
                    }
                }
                2 => {
                    ctx.label("queue:into_decoder");
                    let mut dec = enc.into_decoder().unwrap_infallible();
                    for (i, &b) in bits.iter().enumerate() {
                        let r = dec.read_bit().unwrap_infallible();
                        vcheck_if!(mode == 16, ctx, r == Some(b), "C16/queue_read_bit", "into_decoder: bit {} read as {:?}, written {}", i, r, b);
                    }
                    // what follows is padding up to the word boundary, then end of stream
                    let mut extra = 0;
                    while let Some(b) = dec.read_bit().unwrap_infallible() {
                        vcheck_if!(mode == 16, ctx, !b, "C16/queue_padding_not_zero", "padding bit {} is set", extra);
                        extra += 1;
                        vcheck_if!(mode == 16, ctx, extra < wbits, "C16/queue_too_much_padding", "more than {} padding bits", wbits - 1);
                    }
                }
                _ => {
                    ctx.label("queue:into_overshooting_iter");
                    let it = enc.into_overshooting_iter().unwrap_infallible();
                    let got: Vec<bool> = it.map(|r| r.unwrap_infallible()).collect();
                    vcheck_if!(mode == 16, ctx, got.len() >= bits.len() && got.len() < bits.len() + wbits, "C16/queue_overshooting_iter_len", "iterator yields {} bits for {} written", got.len(), bits.len());
                    vcheck_if!(mode == 16, ctx, got[..bits.len()] == bits[..], "C16/queue_read_bit", "overshooting iterator differs from the written bits");
                    vcheck_if!(mode == 16, ctx, got[bits.len()..].iter().all(|&b| !b), "C16/queue_padding_not_zero", "overshoot contains set bits");
                }
            }
            Ok(())
        }
    };
}

stack_script!(stack_u8_vec, u8, Vec<u8>, "u8/Vec");
stack_script!(stack_u16_vec, u16, Vec<u16>, "u16/Vec");
stack_script!(stack_u32_vec, u32, Vec<u32>, "u32/Vec");
stack_script!(stack_u64_vec, u64, Vec<u64>, "u64/Vec");
stack_script!(stack_usize_vec, usize, Vec<usize>, "usize/Vec");
queue_script!(queue_u8, u8, "u8");
queue_script!(queue_u16, u16, "u16");
queue_script!(queue_u32, u32, "u32");
queue_script!(queue_u64, u64, "u64");
queue_script!(queue_usize, usize, "usize");

pub fn c16_bits(src: &mut Src, ctx: &mut Ctx) -> CaseResult {
    match src.below(10) {
        0 => stack_u8_vec(src, ctx),
        1 => stack_u16_vec(src, ctx),
        2 => stack_u32_vec(src, ctx),
        3 => stack_u64_vec(src, ctx),
        4 => stack_usize_vec(src, ctx),
        5 => queue_u8(src, ctx),
        6 => queue_u16(src, ctx),
        7 => queue_u32(src, ctx),
        8 => queue_u64(src, ctx),
        _ => queue_usize(src, ctx),
    }
}

#[allow(dead_code)]
type _Unused = SmallVec<[u8; 2]>;

// ---------------------------------------------------------------------------------------------
// Batch forms of the bit-level coders (provided methods of `WriteBitStream` / `ReadBitStream`, the `_reverse` forms of
// the stack coder, the `DecodeSymbols` iterator): they are the per-symbol loop.

/// consumes a batch-decoding iterator through collect, next + size_hint, or nth (see h_stream::c01::consume_batch)
fn consume_bits<E: core::fmt::Debug>(style: usize, expect: &[usize], mut it: impl Iterator<Item = Result<usize, E>>) -> Result<Vec<usize>, String> {
    let k = expect.len();
    match style {
        0 => it.collect::<Result<Vec<_>, _>>().map_err(|e| format!("{:?}", e)),
        1 => {
            let mut out = Vec::new();
            loop {
                let left = k - out.len().min(k);
                let (lo, hi) = it.size_hint();
                if lo > left || hi.map_or(false, |h| h < left) {
                    return Err(format!("size_hint() = ({}, {:?}) with {} items still to come", lo, hi, left));
                }
                match it.next() {
                    Some(Ok(s)) => out.push(s),
                    Some(Err(e)) => return Err(format!("{:?}", e)),
                    None => return Ok(out),
                }
                if out.len() > k + 1 {
                    return Err("the iterator yields more items than codebooks were supplied".into());
                }
            }
        }
        _ => {
            if k == 0 {
                return it.collect::<Result<Vec<_>, _>>().map_err(|e| format!("{:?}", e));
            }
            let j = (k - 1) / 2;
            let mut out: Vec<usize> = expect[..j].to_vec();
            match it.nth(j) {
                Some(Ok(s)) => out.push(s),
                Some(Err(e)) => return Err(format!("{:?}", e)),
                None => return Err(format!("nth({}) returned None with {} codebooks supplied", j, k)),
            }
            for r in it {
                match r {
                    Ok(s) => out.push(s),
                    Err(e) => return Err(format!("{:?}", e)),
                }
            }
            Ok(out)
        }
    }
}

macro_rules! batch_script {
    ($name:ident, $W:ty, $label:literal) => {
        fn $name(src: &mut Src, ctx: &mut Ctx) -> CaseResult {
            ctx.label(concat!("batch:", $label));
            let nsym = src.range_usize(1, 7);
            let hw: Vec<u32> = (0..nsym).map(|_| 1 + src.below(9) as u32).collect();
            let henc = EncoderHuffmanTree::from_probabilities::<u32, _>(&hw);
            let hdec = DecoderHuffmanTree::from_probabilities::<u32, _>(&hw);
            let n = src.below_usize(if ctx.tier == 0 { 14 } else { 80 });
            let msg: Vec<usize> = (0..n).map(|_| src.below_usize(nsym)).collect();
            let style = src.below_usize(3);
            note!(ctx, "word {} Huffman weights {:?} message {:?} style {}", $label, hw, msg, style);
            let to_u64 = |v: &[$W]| -> Vec<u64> { v.iter().map(|&x| x as u64).collect() };
            // ---- stack: the `_reverse` forms push the last symbol first, so that popping yields the message in order
            let mut a = StackCoder::<$W, Vec<$W>>::new();
            for s in msg.iter().rev() {
                a.encode_symbol(*s, &henc).map_err(|e| vengine::Fail::new("C16/stack_symbol_encode_failed", format!("{:?}", e)))?;
            }
            let wa = a.into_compressed().unwrap_infallible();
            let mut b = StackCoder::<$W, Vec<$W>>::new();
            let r = b.encode_symbols_reverse(msg.iter().map(|s| (*s, &henc)));
            vcheck!(r.is_ok(), "C16/stack_batch_encode_failed", "encode_symbols_reverse -> {:?}", r);
            let wb = b.into_compressed().unwrap_infallible();
            vcheck!(wa == wb, "C16/stack_batch_encode_differs_from_loop", "encode_symbols_reverse left {}, the per-symbol loop {}", hexwords(&to_u64(&wb)), hexwords(&to_u64(&wa)));
            let mut c = StackCoder::<$W, Vec<$W>>::new();
            let r = c.encode_iid_symbols_reverse(msg.iter().cloned(), &henc);
            vcheck!(r.is_ok(), "C16/stack_batch_encode_failed", "encode_iid_symbols_reverse -> {:?}", r);
            let wc = c.into_compressed().unwrap_infallible();
            vcheck!(wa == wc, "C16/stack_batch_encode_differs_from_loop", "encode_iid_symbols_reverse left {}, the per-symbol loop {}", hexwords(&to_u64(&wc)), hexwords(&to_u64(&wa)));
            let mut d = StackCoder::<$W, Vec<$W>>::new();
            let r = d.encode_symbols(msg.iter().rev().map(|s| (*s, &henc)));
            vcheck!(r.is_ok(), "C16/stack_batch_encode_failed", "encode_symbols -> {:?}", r);
            let wd = d.into_compressed().unwrap_infallible();
            vcheck!(wa == wd, "C16/stack_batch_encode_differs_from_loop", "encode_symbols (reversed input) left {}, the per-symbol loop {}", hexwords(&to_u64(&wd)), hexwords(&to_u64(&wa)));
            // batch decoding from the stack
            let mut dec = match StackCoder::<$W, Vec<$W>>::from_compressed(wa.clone()) {
                Ok(x) => x,
                Err(_) => return Err(vengine::Fail::new("C16/stack_reimport_rejected", "from_compressed rejected the coder's own export".to_string())),
            };
            let got = if style == 0 || n % 2 == 0 { consume_bits(style, &msg, dec.decode_symbols(core::iter::repeat(&hdec).take(n))) } else { consume_bits(style, &msg, dec.decode_iid_symbols(n, &hdec)) };
            vcheck!(got.as_ref() == Ok(&msg), "C16/stack_batch_decode_mismatch", "batch decoding (style {}) returned {:?}, encoded {:?}", style, got, msg);
            vcheck!(dec.is_empty(), "C16/stack_not_empty_after_batch_decode", "{} bits left after decoding the whole message", dec.len());
            // ---- queue
            let mut qa = QueueEncoder::<$W, Vec<$W>>::new();
            for s in msg.iter() {
                qa.encode_symbol(*s, &henc).map_err(|e| vengine::Fail::new("C16/queue_symbol_encode_failed", format!("{:?}", e)))?;
            }
            let va = qa.into_compressed().unwrap_infallible();
            let mut qb = QueueEncoder::<$W, Vec<$W>>::new();
            let r = qb.encode_symbols(msg.iter().map(|s| (*s, &henc)));
            vcheck!(r.is_ok(), "C16/queue_batch_encode_failed", "encode_symbols -> {:?}", r);
            let vb = qb.into_compressed().unwrap_infallible();
            vcheck!(va == vb, "C16/queue_batch_encode_differs_from_loop", "encode_symbols left {}, the per-symbol loop {}", hexwords(&to_u64(&vb)), hexwords(&to_u64(&va)));
            let mut qc = QueueEncoder::<$W, Vec<$W>>::new();
            let r = qc.encode_iid_symbols(msg.iter().cloned(), &henc);
            vcheck!(r.is_ok(), "C16/queue_batch_encode_failed", "encode_iid_symbols -> {:?}", r);
            let vc = qc.into_compressed().unwrap_infallible();
            vcheck!(va == vc, "C16/queue_batch_encode_differs_from_loop", "encode_iid_symbols left {}, the per-symbol loop {}", hexwords(&to_u64(&vc)), hexwords(&to_u64(&va)));
            let mut qd = QueueDecoder::<$W, _>::from_compressed(Cursor::new_at_write_beginning(va));
            let got = if style == 0 || n % 2 == 1 { consume_bits(style, &msg, qd.decode_symbols(core::iter::repeat(&hdec).take(n))) } else { consume_bits(style, &msg, qd.decode_iid_symbols(n, &hdec)) };
            vcheck!(got.as_ref() == Ok(&msg), "C16/queue_batch_decode_mismatch", "batch decoding (style {}) returned {:?}, encoded {:?}", style, got, msg);
            if n >= 3 {
                ctx.nontrivial();
            }
            Ok(())
        }
    };
}
batch_script!(batch_u8, u8, "u8");
batch_script!(batch_u16, u16, "u16");
batch_script!(batch_u32, u32, "u32");
batch_script!(batch_u64, u64, "u64");

pub fn c16_batch(src: &mut Src, ctx: &mut Ctx) -> CaseResult {
    match src.below(4) {
        0 => batch_u8(src, ctx),
        1 => batch_u16(src, ctx),
        2 => batch_u32(src, ctx),
        _ => batch_u64(src, ctx),
    }
}
