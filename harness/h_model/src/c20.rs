//! C20 — scripts aimed at the `unsafe` anchors through the *safe* API.  There is no oracle in
//! this file: the engine's process-level oracle applies (no panic of the memory-safety /
//! wrap-arithmetic class, no death by signal; under AddressSanitizer in the libFuzzer
//! tier). Error values and clean panics are accepted outcomes (`PanicPolicy::CleanAllowed`).
//!
//! a. `Cursor::buf_mut()` followed by truncate / clear / push / replace, then reads and
//!    writes through `Cursor` and `Reverse<Cursor>`, size queries, seeks, and an ANS coder
//!    on top;
//! b. `AnsCoder::from_raw_parts`, `RangeEncoder::from_raw_parts`,
//!    `RangeDecoder::from_raw_parts`, `RangeCoderState::new` and `seek` with arbitrary
//!    values, followed by encodes / decodes with valid models;
//! c. `quantile_function` with arbitrary (also out-of-range) quantiles and
//!    `left_cumulative_and_probability` with arbitrary symbols on every model of the zoo and
//!    on the models every conversion path produces;
//! d. Huffman trees from hostile weight lists (zeros, huge values, NaN / infinite / negative
//!    floats), encoding arbitrary symbols, decoding garbage bits.

use crate::gen::*;
use crate::zoo;
use constriction::backends::{BoundedReadWords, BoundedWriteWords, Cursor, ReadWords, WriteWords};
use constriction::stream::model::*;
use constriction::stream::queue::{EncoderSituation, RangeCoderState, RangeDecoder, RangeEncoder};
use constriction::stream::stack::AnsCoder;
use constriction::stream::{Decode, Encode};
use constriction::symbol::huffman::{DecoderHuffmanTree, EncoderHuffmanTree};
use constriction::symbol::{DecoderCodebook, EncoderCodebook};
use constriction::{Pos, Queue, Seek, Stack};
use core::convert::Infallible;
use core::num::NonZeroUsize;
use vengine::{note, CaseResult, Ctx, Src};

/// Runs an expression that may fail cleanly. A clean panic is an accepted outcome (`None`); a
/// panic of the memory-safety / wrap-arithmetic class is the violation this file looks for.
macro_rules! tol {
    ($e:expr) => {
        match vengine::catch(|| $e) {
            Ok(v) => Some(v),
            Err(p) => {
                if p.origin == vengine::PanicOrigin::Harness {
                    panic!("harness bug: {}", p.render());
                }
                if p.class == vengine::PanicClass::Ub && p.origin != vengine::PanicOrigin::Dependency {
                    return Err(vengine::Fail::new(p.signature(), p.render()));
                }
                None
            }
        }
    };
}

fn cursor_abuse(src: &mut Src, ctx: &mut Ctx) -> CaseResult {
    ctx.label("script:cursor_buf_mut");
    let n = src.below_usize(9);
    let data: Vec<u16> = (0..n).map(|_| src.u16()).collect();
    let pos = src.below_usize(n + 1);
    let reversed = src.bool();
    let mut c = match Cursor::new_at_pos(data, pos) {
        Ok(c) => c,
        Err(()) => return Ok(()),
    };
    note!(ctx, "Cursor over {} words at {} reversed={}", n, pos, reversed);
    if reversed {
        let mut r = c.into_reversed();
        for _ in 0..src.below_usize(24) {
            match src.below(9) {
                0 => r.0.buf_mut().clear(),
                1 => {
                    let k = src.below_usize(n + 1);
                    r.0.buf_mut().truncate(k);
                }
                2 => r.0.buf_mut().push(src.u16()),
                3 => *r.0.buf_mut() = (0..src.below_usize(6)).map(|_| 7u16).collect(),
                4 => {
                    let _ = ReadWords::<u16, Stack>::read(&mut r);
                }
                5 => {
                    let _ = ReadWords::<u16, Queue>::read(&mut r);
                }
                6 => {
                    let _ = WriteWords::write(&mut r, src.u16());
                }
                7 => {
                    let _ = (BoundedReadWords::<u16, Stack>::remaining(&r), BoundedReadWords::<u16, Queue>::remaining(&r), BoundedWriteWords::<u16>::space_left(&r), Pos::pos(&r));
                }
                _ => {
                    let _ = Seek::seek(&mut r, src.below_usize(12));
                }
            }
        }
        if n % 2 == 1 {
            // reversing the abused cursor back in place, then using it
            ctx.label("into_reversed_after_buf_mut");
            let mut c2 = r.into_reversed();
            let _ = ReadWords::<u16, Stack>::read(&mut c2);
            let _ = ReadWords::<u16, Queue>::read(&mut c2);
            let _ = WriteWords::write(&mut c2, 1);
            let _ = (BoundedReadWords::<u16, Stack>::remaining(&c2), BoundedReadWords::<u16, Queue>::remaining(&c2), BoundedWriteWords::<u16>::space_left(&c2), Pos::pos(&c2));
            return Ok(());
        }
        // a coder on top of the abused backend
        let mut ans = AnsCoder::<u16, u32, _>::from_binary(r).unwrap_or_else(|e| match e {});
        let t = hcommon::gen_tab(src, 12, 0, 6);
        for _ in 0..src.below_usize(6) {
            let _ = ans.decode_symbol(hcommon::TV::<u16, 12>::new(&t));
            let _ = ans.encode_symbol(src.below_usize(t.n() + 1), hcommon::TV::<u16, 12>::new(&t));
        }
    } else {
        for _ in 0..src.below_usize(24) {
            match src.below(10) {
                0 => c.buf_mut().clear(),
                1 => {
                    let k = src.below_usize(n + 1);
                    c.buf_mut().truncate(k);
                }
                2 => c.buf_mut().push(src.u16()),
                3 => *c.buf_mut() = (0..src.below_usize(6)).map(|_| 7u16).collect(),
                4 => {
                    let _ = ReadWords::<u16, Stack>::read(&mut c);
                }
                5 => {
                    let _ = ReadWords::<u16, Queue>::read(&mut c);
                }
                6 => {
                    let _ = WriteWords::write(&mut c, src.u16());
                }
                7 => {
                    let _ = (BoundedReadWords::<u16, Stack>::remaining(&c), BoundedReadWords::<u16, Queue>::remaining(&c), BoundedWriteWords::<u16>::space_left(&c), Pos::pos(&c));
                }
                8 => {
                    let _ = Seek::seek(&mut c, src.below_usize(12));
                }
                _ => {
                    let v = c.as_view();
                    let _ = BoundedReadWords::<u16, Stack>::remaining(&v);
                    let mut cl = c.cloned();
                    let _ = ReadWords::<u16, Stack>::read(&mut cl);
                }
            }
        }
        if n % 2 == 1 {
            // reversing the abused cursor in place, then using it
            ctx.label("into_reversed_after_buf_mut");
            let mut r = c.into_reversed();
            let _ = ReadWords::<u16, Stack>::read(&mut r);
            let _ = ReadWords::<u16, Queue>::read(&mut r);
            let _ = WriteWords::write(&mut r, 1);
            let _ = (BoundedReadWords::<u16, Stack>::remaining(&r), BoundedReadWords::<u16, Queue>::remaining(&r), BoundedWriteWords::<u16>::space_left(&r), Pos::pos(&r));
            return Ok(());
        }
        let mut ans = AnsCoder::<u16, u32, _>::from_binary(c).unwrap_or_else(|e| match e {});
        let t = hcommon::gen_tab(src, 12, 0, 6);
        for _ in 0..src.below_usize(6) {
            let _ = ans.decode_symbol(hcommon::TV::<u16, 12>::new(&t));
            let _ = ans.encode_symbol(src.below_usize(t.n() + 1), hcommon::TV::<u16, 12>::new(&t));
        }
    }
    Ok(())
}

fn raw_parts(src: &mut Src, ctx: &mut Ctx) -> CaseResult {
    ctx.label("script:raw_parts_and_seek");
    let bulk: Vec<u16> = (0..src.below_usize(6)).map(|_| src.u16()).collect();
    let prec = [1u32, 7, 12, 16][src.below_usize(4)];
    let t = hcommon::gen_tab(src, prec, 0, 6);
    macro_rules! with_t {
        (|$m:ident| $body:expr) => {
            match t.prec {
                1 => {
                    let $m = hcommon::TV::<u16, 1>::new(&t);
                    $body
                }
                7 => {
                    let $m = hcommon::TV::<u16, 7>::new(&t);
                    $body
                }
                12 => {
                    let $m = hcommon::TV::<u16, 12>::new(&t);
                    $body
                }
                _ => {
                    let $m = hcommon::TV::<u16, 16>::new(&t);
                    $body
                }
            }
        };
    }
    match src.below(4) {
        0 => {
            let mut c = AnsCoder::<u16, u32, Vec<u16>>::from_raw_parts(bulk, src.u32());
            for _ in 0..src.below_usize(12) {
                if src.bool() {
                    let s = src.below_usize(t.n());
                    with_t!(|m| {
                        let _ = c.encode_symbol(s, m);
                    });
                } else {
                    with_t!(|m| {
                        let _ = c.decode_symbol(m);
                    });
                }
                if src.ratio(1, 4) {
                    let _ = c.seek((src.below_usize(8), src.u32()));
                }
                if src.ratio(1, 4) {
                    let _ = (c.num_words(), c.num_valid_bits(), c.is_empty());
                    let _ = c.get_binary().map(|g| g.len());
                    let _ = c.get_compressed().map(|g| g.len());
                }
            }
            let _ = c.into_binary();
        }
        1 => {
            let (lower, range) = (src.u32(), src.u32());
            let st = match RangeCoderState::<u16, u32>::new(lower, range) {
                Ok(s) => s,
                Err(()) => return Ok(()),
            };
            let sit = if src.bool() { EncoderSituation::Normal } else { EncoderSituation::Inverted(NonZeroUsize::new(1 + src.below_usize(3)).unwrap(), src.u16()) };
            let mut e = RangeEncoder::<u16, u32, Vec<u16>>::from_raw_parts(bulk, st, sit);
            for _ in 0..src.below_usize(12) {
                let s = src.below_usize(t.n());
                with_t!(|m| {
                    let _ = e.encode_symbol(s, m);
                });
                if src.ratio(1, 4) {
                    let _ = (e.num_words(), e.is_empty(), e.pos());
                    let _ = e.get_compressed().len();
                }
            }
            let _ = e.into_compressed();
        }
        2 => {
            let (lower, range, point) = (src.u32(), src.u32(), src.u32());
            let st = match RangeCoderState::<u16, u32>::new(lower, range) {
                Ok(s) => s,
                Err(()) => return Ok(()),
            };
            let cur = Cursor::new_at_pos(bulk, 0).unwrap_or_else(|()| Cursor::new_at_write_beginning(Vec::new()));
            if let Ok(mut d) = RangeDecoder::<u16, u32, _>::from_raw_parts(cur, st, point) {
                for _ in 0..src.below_usize(12) {
                    with_t!(|m| {
                        let _ = d.decode_symbol(m);
                    });
                    if src.ratio(1, 3) {
                        if let Ok(st2) = RangeCoderState::<u16, u32>::new(src.u32(), src.u32()) {
                            let _ = d.seek((src.below_usize(8), st2));
                        }
                    }
                    let _ = d.maybe_exhausted();
                }
            }
        }
        _ => {
            // decoders over garbage with seeks to arbitrary positions / states
            let mut d = RangeDecoder::<u16, u32, _>::from_compressed(bulk.clone()).unwrap_or_else(|e| match e {});
            let mut a = AnsCoder::<u16, u32, _>::from_binary(Cursor::new_at_write_end(bulk)).unwrap_or_else(|e| match e {});
            for _ in 0..src.below_usize(12) {
                with_t!(|m| {
                    let _ = d.decode_symbol(m);
                    let _ = a.decode_symbol(m);
                });
                if src.ratio(1, 3) {
                    let _ = a.seek((src.below_usize(8), src.u32()));
                }
            }
        }
    }
    Ok(())
}

macro_rules! model_queries {
    ($name:ident, $zoo:ident, $bits:expr) => {
        fn $name(src: &mut Src, ctx: &mut Ctx) -> CaseResult {
            use zoo::$zoo::{gen, Pr, P};
            ctx.label("script:model_queries_out_of_range");
            let m = match gen(src, false, false) {
                Some(m) => m,
                None => return Ok(()),
            };
            note!(ctx, "model {}", m.name);
            for _ in 0..src.below_usize(16) {
                // any value of the probability type, valid or not
                let q = src.wordish($bits) as Pr;
                if let Some(d) = &m.dec {
                    // a clean panic (assert) is an accepted outcome
                    let _ = tol!(d(q));
                }
                if let Some(e) = &m.enc {
                    let s = match src.below(4) {
                        0 => m.outside.get(src.below_usize(m.outside.len().max(1))).copied().unwrap_or(0),
                        1 => src.u64() as i64,
                        _ => m.support[src.below_usize(m.support.len())],
                    };
                    let _ = tol!(e(s));
                }
            }
            let _ = P;
            Ok(())
        }
    };
}
model_queries!(mq_u8_8, z_u8_8, 8);
model_queries!(mq_u16_12, z_u16_12, 16);
model_queries!(mq_u16_16, z_u16_16, 16);
model_queries!(mq_u32_24, z_u32_24, 32);
model_queries!(mq_u32_32, z_u32_32, 32);

/// whatever a constructor accepted is also used for coding: a few symbols decoded from arbitrary words and encoded back
/// with the stack coder, and decoded with the range decoder
macro_rules! coders_on_top {
    ($m:expr, $q:expr) => {{
        let words: Vec<u16> = vec![$q, $q ^ 0x5555, $q.rotate_left(3), 7];
        if let Some(Ok(mut ans)) = tol!(AnsCoder::<u16, u32>::from_binary(words.clone())) {
            let mut got = Vec::new();
            for _ in 0..3 {
                if let Some(Ok(s)) = tol!(ans.decode_symbol(&$m)) {
                    got.push(s);
                }
            }
            for s in got.iter().rev() {
                let _ = tol!(ans.encode_symbol(*s, &$m));
            }
        }
        if let Some(Ok(mut dec)) = tol!(RangeDecoder::<u16, u32, _>::from_compressed(words)) {
            for _ in 0..3 {
                let _ = tol!(dec.decode_symbol(&$m));
            }
        }
    }};
}

/// hostile constructor input, then queries on whatever was built, and every conversion
fn hostile_models(src: &mut Src, ctx: &mut Ctx) -> CaseResult {
    ctx.label("script:hostile_ctor_then_conversions");
    let tab = hostile_float_table(src, 12);
    let fx: Vec<u16> = hostile_fixed_table(src, 12, 16, 10).into_iter().map(|x| x as u16).collect();
    let infer = src.bool();
    note!(ctx, "float {:?} fixed {:?}", tab, fx);
    let q = src.u16();
    match src.below(6) {
        0 => {
            // an explicit, plausible normalisation in half of the cases (so that the entry checks, not the sum, have to
            // reject NaN / infinite / negative entries)
            let norm: Option<f64> = if q % 2 == 0 {
                None
            } else {
                let r: f64 = tab.iter().copied().filter(|x| x.is_finite() && *x > 0.0 && *x < 1e300).sum();
                Some(if r > 0.0 && r.is_finite() { r } else { 1.0 })
            };
            if let Some(Ok(m)) = tol!(ContiguousCategoricalEntropyModel::<u16, _, 12>::from_floating_point_probabilities_fast(&tab, norm)) {
                for s in 0..tab.len() + 1 {
                    let _ = tol!(m.left_cumulative_and_probability(s));
                }
                coders_on_top!(m, q);
                let _ = tol!(m.quantile_function(q));
                let _ = tol!(m.left_cumulative_and_probability(q as usize));
                let _ = tol!(m.to_lookup_decoder_model().quantile_function(q));
                let _ = tol!(m.to_generic_lookup_decoder_model().quantile_function(q));
                let _ = tol!(m.to_generic_decoder_model().quantile_function(q));
                let _ = tol!(m.to_generic_encoder_model().left_cumulative_and_probability(q as usize));
                let _ = tol!(m.symbol_table().count());
                let _ = tol!(m.entropy_base2::<f64>());
            }
        }
        1 => {
            if let Some(Ok(m)) = tol!(ContiguousCategoricalEntropyModel::<u16, _, 12>::from_nonzero_fixed_point_probabilities(fx.iter(), infer)) {
                coders_on_top!(m, q);
                let _ = tol!(m.quantile_function(q));
                let _ = tol!(m.left_cumulative_and_probability(q as usize % (fx.len() + 2)));
                let _ = tol!(m.to_lookup_decoder_model().quantile_function(q));
                let _ = tol!(m.symbol_table().count());
            }
        }
        2 => {
            if let Some(Ok(m)) = tol!(ContiguousLookupDecoderModel::<u16, _, _, 12>::from_nonzero_fixed_point_probabilities(fx.iter(), infer)) {
                let _ = tol!(m.quantile_function(q));
                let _ = tol!(m.as_contiguous_categorical().quantile_function(q));
                let _ = tol!(m.symbol_table().count());
            }
            if let Some(Ok(m)) = tol!(ContiguousLookupDecoderModel::<u16, _, _, 12>::from_floating_point_probabilities_fast(&tab, None)) {
                let _ = tol!(m.quantile_function(q));
            }
        }
        3 => {
            let syms: Vec<i32> = (0..src.below_usize(fx.len() + 3) as i32).collect();
            if let Some(Ok(m)) = tol!(NonContiguousLookupDecoderModel::<i32, u16, _, _, 12>::from_symbols_and_nonzero_fixed_point_probabilities(syms.iter().cloned(), fx.iter(), infer)) {
                let _ = tol!(m.quantile_function(q));
                let _ = tol!(m.as_non_contiguous_categorical().quantile_function(q));
            }
            let syms2: Vec<i32> = (0..src.below_usize(tab.len() + 3) as i32).collect();
            if let Some(Ok(m)) = tol!(NonContiguousLookupDecoderModel::<i32, u16, _, _, 12>::from_symbols_and_floating_point_probabilities_fast(syms2.iter().cloned(), &tab, None)) {
                let _ = tol!(m.quantile_function(q));
            }
            if let Some(Ok(m)) = tol!(NonContiguousCategoricalDecoderModel::<i32, u16, _, 12>::from_symbols_and_floating_point_probabilities_fast(syms2.iter().cloned(), &tab, None)) {
                let _ = tol!(m.quantile_function(q));
                let _ = tol!(m.to_lookup_decoder_model().quantile_function(q));
            }
        }
        4 => {
            if let Some(Ok(m)) = tol!(LazyContiguousCategoricalEntropyModel::<u16, f64, _, 12>::from_floating_point_probabilities_fast(&tab[..], None)) {
                coders_on_top!(m, q);
                let _ = tol!(m.quantile_function(q));
                let _ = tol!(m.left_cumulative_and_probability(q as usize % (tab.len() + 2)));
            }
        }
        _ => {
            let r = src.below_usize(5000);
            if let Some(m) = tol!(UniformModel::<u16, 12>::new(r)) {
                let _ = tol!(m.quantile_function(q));
                let _ = tol!(m.left_cumulative_and_probability(src.u64() as usize));
            }
        }
    }
    Ok(())
}

fn huffman_abuse(src: &mut Src, ctx: &mut Ctx) -> CaseResult {
    ctx.label("script:huffman_hostile");
    let n = src.below_usize(10);
    let bits: Vec<bool> = (0..src.below_usize(40)).map(|_| src.bool()).collect();
    if src.bool() {
        // integer weights whose running sums stay inside the type (the sum is the caller's arithmetic)
        let w: Vec<u32> = (0..n).map(|_| src.wordish(20) as u32).collect();
        note!(ctx, "u32 weights {:?}", w);
        if let Some(e) = tol!(EncoderHuffmanTree::from_probabilities::<u32, _>(&w)) {
            for _ in 0..6 {
                let s = match src.below(3) {
                    0 => src.below_usize(n + 3),
                    1 => usize::MAX - src.below_usize(3),
                    _ => src.u64() as usize,
                };
                let _ = e.encode_symbol_prefix(s, |_b| Ok::<(), Infallible>(()));
                let _ = e.encode_symbol_suffix(s, |_b| Ok::<(), Infallible>(()));
            }
        }
        if let Some(d) = tol!(DecoderHuffmanTree::from_probabilities::<u32, _>(&w)) {
            let mut it = bits.iter().map(|&b| Ok::<bool, Infallible>(b));
            for _ in 0..8 {
                let _ = d.decode_symbol(&mut it);
            }
        }
    } else {
        let w: Vec<f64> = hostile_float_table(src, 10);
        note!(ctx, "f64 weights {:?}", w);
        if let Some(Ok(e)) = tol!(EncoderHuffmanTree::from_float_probabilities::<f64, _>(&w)) {
            for _ in 0..6 {
                let s = src.below_usize(w.len() + 3);
                let _ = e.encode_symbol_prefix(s, |_b| Ok::<(), Infallible>(()));
            }
        }
        if let Some(Ok(d)) = tol!(DecoderHuffmanTree::from_float_probabilities::<f64, _>(&w)) {
            let mut it = bits.iter().map(|&b| Ok::<bool, Infallible>(b));
            for _ in 0..8 {
                let _ = d.decode_symbol(&mut it);
            }
        }
    }
    Ok(())
}

pub fn c20_unsafe(src: &mut Src, ctx: &mut Ctx) -> CaseResult {
    ctx.nontrivial();
    match src.below(10) {
        0 | 1 => cursor_abuse(src, ctx),
        2 | 3 => {
            // `from_raw_parts` with inconsistent arguments is garbage in: the documentation of
            // `AnsCoder::from_raw_parts` promises memory safety, not sensible arithmetic. So only
            // std's unsafe-precondition checks (real undefined behaviour) count here, while an
            // arithmetic-overflow panic on a coder assembled from arbitrary parts is accepted.
            match vengine::catch(|| raw_parts(src, ctx)) {
                Ok(r) => r,
                Err(p) if p.origin == vengine::PanicOrigin::Harness => panic!("harness bug: {}", p.render()),
                Err(p) if p.msg.contains("unsafe precondition") || p.msg.contains("unreachable") => Err(vengine::Fail::new(p.signature(), p.render())),
                Err(_) => {
                    ctx.label("raw_parts_garbage_in_panicked");
                    Ok(())
                }
            }
        }
        4 => match src.below(5) {
            0 => mq_u8_8(src, ctx),
            1 => mq_u16_12(src, ctx),
            2 => mq_u16_16(src, ctx),
            3 => mq_u32_24(src, ctx),
            _ => mq_u32_32(src, ctx),
        },
        5 | 6 | 7 => hostile_models(src, ctx),
        _ => huffman_abuse(src, ctx),
    }
}

// ---------------------------------------------------------------------------------------------
// e. Safe traits implemented by the *user* and handed to the library: an `IterableEntropyModel`
//    whose symbol table is anything at all (not a tiling of [0, 2^P)), passed to every
//    `from_iterable_entropy_model` / `to_generic_*` / `From<&M>` conversion, followed by queries on the
//    result; and a `probability::Distribution + Inverse` whose CDF is anything at all (not monotone,
//    outside [0, 1], NaN), quantised by a `LeakyQuantizer`. Implementing a safe trait badly is a safe
//    program: the result may be a panic or a useless model, never undefined behaviour. Like for
//    `from_raw_parts`, wrapping arithmetic on garbage is garbage in / garbage out; only real undefined
//    behaviour (std's unsafe-precondition checks, unreachable hints) counts here.

/// like `tol!`, but only real undefined behaviour counts
macro_rules! ub_only {
    ($e:expr) => {
        match vengine::catch(|| $e) {
            Ok(v) => Some(v),
            Err(p) => {
                if p.origin == vengine::PanicOrigin::Harness {
                    panic!("harness bug: {}", p.render());
                }
                if p.origin != vengine::PanicOrigin::Dependency && (p.msg.contains("unsafe precondition") || p.msg.contains("unreachable")) {
                    return Err(vengine::Fail::new(p.signature(), p.render()));
                }
                None
            }
        }
    };
}

pub struct UserTable<const P: usize> {
    pub rows: Vec<(i32, u16, core::num::NonZeroU16)>,
}

impl<const P: usize> EntropyModel<P> for UserTable<P> {
    type Symbol = i32;
    type Probability = u16;
}

impl<'m, const P: usize> IterableEntropyModel<'m, P> for UserTable<P> {
    fn symbol_table(&'m self) -> impl Iterator<Item = (i32, u16, core::num::NonZeroU16)> {
        self.rows.iter().cloned()
    }
}

fn user_rows(src: &mut Src, prec: u32) -> Vec<(i32, u16, core::num::NonZeroU16)> {
    let total: u32 = 1 << prec;
    let n = src.below_usize(7);
    let mut rows = Vec::new();
    let kind = src.below(6);
    let mut cum: u32 = if kind == 1 { 1 + src.below(20) as u32 } else { 0 };
    for i in 0..n {
        let p: u32 = match kind {
            // a proper tiling (possibly cut short or running over, depending on n)
            0 | 1 | 2 => {
                let left = total.saturating_sub(cum);
                if i + 1 == n && kind == 0 { left.max(1) } else { 1 + src.below((left / 2).max(1) as u64) as u32 }
            }
            // anything
            _ => 1 + src.below(0xffff) as u32,
        };
        let p = p.clamp(1, 0xffff) as u16;
        let c = match kind {
            4 => src.u16(),
            5 => 0,
            _ => cum as u16,
        };
        let sym = if src.ratio(1, 8) { 0 } else { i as i32 - 2 };
        rows.push((sym, c, core::num::NonZeroU16::new(p).unwrap()));
        cum = cum.wrapping_add(p as u32);
    }
    rows
}

macro_rules! user_table_script {
    ($name:ident, $P:literal) => {
        fn $name(src: &mut Src, ctx: &mut Ctx) -> CaseResult {
            let ut = UserTable::<$P> { rows: user_rows(src, $P) };
            note!(ctx, "user-implemented IterableEntropyModel<{}>: rows {:?}", $P, ut.rows);
            let qs: Vec<u16> = (0..6).map(|_| src.wordish(16) as u16).collect();
            let which = src.below(6);
            ctx.label(["user_table:lookup_from_iterable", "user_table:decoder_from_iterable", "user_table:encoder_from_iterable", "user_table:to_generic", "user_table:from_ref", "user_table:diagnostics"][which as usize]);
            match which {
                0 => {
                    if let Some(m) = ub_only!(NonContiguousLookupDecoderModel::<i32, u16, Vec<(u16, i32)>, Box<[u16]>, $P>::from_iterable_entropy_model(&ut)) {
                        for &q in &qs {
                            let _ = ub_only!(m.quantile_function(q));
                        }
                        let _ = ub_only!(m.symbol_table().count());
                        let _ = ub_only!(m.as_non_contiguous_categorical().quantile_function(qs[0]));
                    }
                }
                1 => {
                    if let Some(m) = ub_only!(NonContiguousCategoricalDecoderModel::<i32, u16, Vec<(u16, i32)>, $P>::from_iterable_entropy_model(&ut)) {
                        for &q in &qs {
                            let _ = ub_only!(m.quantile_function(q));
                        }
                        let _ = ub_only!(m.symbol_table().count());
                        let _ = ub_only!(m.entropy_base2::<f64>());
                        if let Some(l) = ub_only!(m.to_lookup_decoder_model()) {
                            for &q in &qs {
                                let _ = ub_only!(l.quantile_function(q));
                            }
                        }
                    }
                }
                2 => {
                    if let Some(m) = ub_only!(NonContiguousCategoricalEncoderModel::<i32, u16, $P>::from_iterable_entropy_model(&ut)) {
                        for &q in &qs {
                            let _ = ub_only!(m.left_cumulative_and_probability(q as i32 % 8 - 3));
                        }
                        let _ = ub_only!(m.entropy_base2::<f64>());
                    }
                }
                3 => {
                    if let Some(m) = ub_only!(ut.to_generic_lookup_decoder_model()) {
                        for &q in &qs {
                            let _ = ub_only!(m.quantile_function(q));
                        }
                    }
                    if let Some(m) = ub_only!(ut.to_generic_decoder_model()) {
                        for &q in &qs {
                            let _ = ub_only!(m.quantile_function(q));
                        }
                    }
                    if let Some(m) = ub_only!(ut.to_generic_encoder_model()) {
                        let _ = ub_only!(m.left_cumulative_and_probability(0));
                    }
                }
                4 => {
                    if let Some(m) = ub_only!(NonContiguousLookupDecoderModel::<i32, u16, Vec<(u16, i32)>, Box<[u16]>, $P>::from(&ut)) {
                        for &q in &qs {
                            let _ = ub_only!(m.quantile_function(q));
                        }
                    }
                    if let Some(m) = ub_only!(NonContiguousCategoricalDecoderModel::<i32, u16, Vec<(u16, i32)>, $P>::from(&ut)) {
                        for &q in &qs {
                            let _ = ub_only!(m.quantile_function(q));
                        }
                        // and a coder on top
                        let mut ans = AnsCoder::<u16, u32>::from_binary(vec![qs[1], qs[2], qs[3]]).unwrap();
                        for _ in 0..4 {
                            let _ = ub_only!(ans.decode_symbol(&m));
                        }
                    }
                }
                _ => {
                    let _ = ub_only!(ut.entropy_base2::<f64>());
                    let _ = ub_only!(ut.floating_point_symbol_table::<f64>().count());
                    let _ = ub_only!(ut.cross_entropy_base2::<f64>([0.5f64, 0.25, 0.25].iter().cloned()));
                }
            }
            Ok(())
        }
    };
}
user_table_script!(user_table_12, 12);
user_table_script!(user_table_16, 16);
user_table_script!(user_table_4, 4);

/// a CDF that is anything at all, with an inverse that is anything at all
#[derive(Clone, Debug)]
pub struct HostileDist {
    xs: Vec<f64>,
    vs: Vec<f64>,
    inv: Vec<f64>,
}

impl probability::distribution::Distribution for HostileDist {
    type Value = f64;
    fn distribution(&self, x: f64) -> f64 {
        let k = self.xs.partition_point(|&b| b <= x);
        self.vs[k]
    }
}

impl probability::distribution::Inverse for HostileDist {
    fn inverse(&self, p: f64) -> f64 {
        let k = if p.is_nan() { 0 } else { ((p.clamp(0.0, 1.0) * self.inv.len() as f64) as usize).min(self.inv.len() - 1) };
        self.inv[k]
    }
}

fn hostile_float(src: &mut Src) -> f64 {
    match src.below(12) {
        0 => f64::NAN,
        1 => f64::INFINITY,
        2 => f64::NEG_INFINITY,
        3 => -0.25,
        4 => 1.5,
        5 => 0.0,
        6 => 1.0,
        7 => 1e300,
        8 => -1e300,
        _ => src.below(1001) as f64 / 1000.0,
    }
}

macro_rules! hostile_dist_script {
    ($name:ident, $Sym:ty, $Pr:ty, $P:literal, $bits:expr) => {
        fn $name(src: &mut Src, ctx: &mut Ctx) -> CaseResult {
            let lo = -(src.below(40) as i64);
            let hi = lo + 1 + src.below(60) as i64;
            let lo_s = lo.clamp(<$Sym>::MIN as i64, <$Sym>::MAX as i64) as $Sym;
            let hi_s = hi.clamp(<$Sym>::MIN as i64, <$Sym>::MAX as i64) as $Sym;
            if lo_s >= hi_s {
                return Ok(());
            }
            let nb = 1 + src.below_usize(6);
            let mut xs: Vec<f64> = (0..nb).map(|_| lo as f64 - 2.0 + src.below((hi - lo + 4) as u64 * 2) as f64 / 2.0).collect();
            xs.sort_by(|a, b| a.partial_cmp(b).unwrap());
            let vs: Vec<f64> = (0..nb + 1).map(|_| hostile_float(src)).collect();
            let inv: Vec<f64> = (0..1 + src.below_usize(5)).map(|_| match src.below(6) { 0 => f64::NAN, 1 => 1e300, 2 => -1e300, _ => lo as f64 - 5.0 + src.below((hi - lo + 10) as u64) as f64 }).collect();
            let d = HostileDist { xs, vs, inv };
            note!(ctx, "user-implemented Distribution + Inverse {:?} quantised on {}..={} as <{},{},{}>", d, lo_s, hi_s, stringify!($Sym), stringify!($Pr), $P);
            ctx.label("hostile_distribution");
            let quantizer = match ub_only!(LeakyQuantizer::<f64, $Sym, $Pr, $P>::new(lo_s..=hi_s)) {
                Some(q) => q,
                None => return Ok(()),
            };
            let m = quantizer.quantize(d);
            for _ in 0..6 {
                let q = src.wordish($bits) as $Pr;
                let _ = ub_only!(m.quantile_function(q));
                let s = (lo - 2 + src.below((hi - lo + 5) as u64) as i64).clamp(<$Sym>::MIN as i64, <$Sym>::MAX as i64) as $Sym;
                let _ = ub_only!(m.left_cumulative_and_probability(s));
            }
            let _ = ub_only!(m.symbol_table().take(200).count());
            let _ = ub_only!(m.entropy_base2::<f64>());
            Ok(())
        }
    };
}
hostile_dist_script!(hostile_dist_i32_u32_24, i32, u32, 24, 32);
hostile_dist_script!(hostile_dist_i8_u8_8, i8, u8, 8, 8);
hostile_dist_script!(hostile_dist_u8_u16_12, u8, u16, 12, 16);
hostile_dist_script!(hostile_dist_i16_u16_16, i16, u16, 16, 16);

/// an `EncoderModel` + `DecoderModel` written by the user that answers with anything at all
pub struct UserModel {
    answers: Vec<(i32, u16, core::num::NonZeroU16)>,
}
impl EntropyModel<12> for UserModel {
    type Symbol = i32;
    type Probability = u16;
}
impl EncoderModel<12> for UserModel {
    fn left_cumulative_and_probability(&self, symbol: impl core::borrow::Borrow<i32>) -> Option<(u16, core::num::NonZeroU16)> {
        let k = (*symbol.borrow()).rem_euclid(self.answers.len() as i32 + 1) as usize;
        self.answers.get(k).map(|a| (a.1, a.2))
    }
}
impl DecoderModel<12> for UserModel {
    fn quantile_function(&self, quantile: u16) -> (i32, u16, core::num::NonZeroU16) {
        self.answers[quantile as usize % self.answers.len()]
    }
}

fn user_model_script(src: &mut Src, ctx: &mut Ctx) -> CaseResult {
    use constriction::stream::chain::ChainCoder;
    let n = 1 + src.below_usize(5);
    let answers: Vec<(i32, u16, core::num::NonZeroU16)> = (0..n)
        .map(|i| (i as i32 - 1, if src.bool() { src.below(4097) as u16 } else { src.u16() }, core::num::NonZeroU16::new(if src.bool() { 1 + src.below(4096) as u16 } else { src.u16().max(1) }).unwrap()))
        .collect();
    let m = UserModel { answers };
    note!(ctx, "user-implemented EncoderModel / DecoderModel answering {:?}", m.answers);
    ctx.label("user_model_with_coders");
    let words: Vec<u16> = (0..src.below_usize(8)).map(|_| src.wordish(16) as u16).collect();
    let syms: Vec<i32> = (0..src.below_usize(8)).map(|_| src.below(8) as i32 - 2).collect();
    match src.below(3) {
        0 => {
            let mut c = match ub_only!(AnsCoder::<u16, u32>::from_binary(words.clone())) {
                Some(Ok(c)) => c,
                _ => return Ok(()),
            };
            for _ in 0..4 {
                let _ = ub_only!(c.decode_symbol(&m));
            }
            for &s in &syms {
                let _ = ub_only!(c.encode_symbol(s, &m));
            }
            for _ in 0..6 {
                let _ = ub_only!(c.decode_symbol(&m));
            }
            let _ = ub_only!(c.into_compressed());
        }
        1 => {
            let mut e = RangeEncoder::<u16, u32>::new();
            for &s in &syms {
                let _ = ub_only!(e.encode_symbol(s, &m));
            }
            let _ = ub_only!(e.get_compressed().len());
            let mut d = match ub_only!(RangeDecoder::<u16, u32, _>::from_compressed(words.clone())) {
                Some(Ok(d)) => d,
                _ => return Ok(()),
            };
            for _ in 0..8 {
                let _ = ub_only!(d.decode_symbol(&m));
            }
        }
        _ => {
            let mut c = match ub_only!(ChainCoder::<u16, u32, Vec<u16>, Vec<u16>, 12>::from_binary(words.clone())) {
                Some(Ok(c)) => c,
                _ => return Ok(()),
            };
            for _ in 0..4 {
                let _ = ub_only!(c.decode_symbol(&m));
            }
            for &s in &syms {
                let _ = ub_only!(c.encode_symbol(s, &m));
            }
            for _ in 0..4 {
                let _ = ub_only!(c.decode_symbol(&m));
            }
        }
    }
    Ok(())
}

pub fn c20_user_impls(src: &mut Src, ctx: &mut Ctx) -> CaseResult {
    ctx.nontrivial();
    match src.below(10) {
        8 | 9 => user_model_script(src, ctx),
        0 | 1 => user_table_12(src, ctx),
        2 => user_table_16(src, ctx),
        3 => user_table_4(src, ctx),
        4 => hostile_dist_i32_u32_24(src, ctx),
        5 => hostile_dist_i8_u8_8(src, ctx),
        6 => hostile_dist_u8_u16_12(src, ctx),
        _ => hostile_dist_i16_u16_16(src, ctx),
    }
}
